(* NServerP.v - theorems about the renetcode server model (Netcode/NServer.v):
   no panic, the connection table invariant, slot bound, connect / disconnect events,
   full server, no amplification, time-outs, sequence discipline. *)
From RenetV Require Import Base Consts Aead NPacket Token NServer.
From RenetV Require Import Spec.NetSpec.
From RenetV Require Import Proofs.AeadP Proofs.NSlotsP Proofs.NCodecP.
Require Import Lia ZifyBool ZifyN ZifyNat.
Arguments N.add : simpl never.
Arguments N.sub : simpl never.
Arguments N.mul : simpl never.
Arguments N.div : simpl never.
Arguments N.modulo : simpl never.
Arguments N.eqb : simpl never.
Arguments N.ltb : simpl never.
Arguments N.leb : simpl never.
Open Scope N_scope.

(* projections of the record setters, without touching anything else *)
Ltac nsimpl :=
  cbn [ns_clients ns_pending ns_entries ns_protocol ns_connect_key ns_max ns_chal_seq ns_chal_key ns_addrs
       ns_now ns_global_seq ns_secure set_clients set_pending set_entries set_seqs set_now set_max set_slot
       nc_confirmed nc_id nc_send_key nc_recv_key nc_user nc_addr nc_last_recv nc_last_send nc_timeout nc_seq
       nc_expire nc_replay nc_chal_floor nc_with_replay nc_received nc_sent].
Ltac nsimpl_in H :=
  cbn [ns_clients ns_pending ns_entries ns_protocol ns_connect_key ns_max ns_chal_seq ns_chal_key ns_addrs
       ns_now ns_global_seq ns_secure set_clients set_pending set_entries set_seqs set_now set_max set_slot
       nc_confirmed nc_id nc_send_key nc_recv_key nc_user nc_addr nc_last_recv nc_last_send nc_timeout nc_seq
       nc_expire nc_replay nc_chal_floor nc_with_replay nc_received nc_sent] in H.

Lemma set_entries_id s : set_entries s (ns_entries s) = s.
Proof. destruct s; reflexivity. Qed.

Lemma upd_upd {A} (l : list A) i x y : upd (upd l i x) i y = upd l i y.
Proof. revert i. induction l as [|z l IH]; intros [|i]; cbn [upd]; try reflexivity. rewrite IH. reflexivity. Qed.

Lemma set_slot_twice s i x y : set_slot (set_slot s i x) i y = set_slot s i y.
Proof. unfold set_slot, set_clients. nsimpl. rewrite upd_upd. reflexivity. Qed.

(* ------------------------------------------------------------------ *)
(* the table invariant on (connected list, pending list)               *)
(* ------------------------------------------------------------------ *)
Definition tbl (cs : list nconn) (p : list (addr * nconn)) : Prop :=
  NoDup (map nc_id cs) /\ NoDup (map nc_addr cs) /\ NoDup (map fst p) /\
  (forall a c, In (a, c) p -> nc_addr c = a /\ ~ In a (map nc_addr cs)) /\
  Forall (fun c => rp_wf (nc_replay c)) cs /\
  Forall (fun ac => rp_wf (nc_replay (snd ac))) p.

Lemma find_by_addr_none_iff s a : find_by_addr s a = None <-> ~ In a (map nc_addr (connected s)).
Proof.
  unfold find_by_addr, connected. rewrite find_slot_by_none. split.
  - intros H Hin. apply in_map_iff in Hin. destruct Hin as [c [<- Hc]].
    specialize (H _ Hc). rewrite addr_eqb_refl in H. discriminate.
  - intros H c Hc. apply addr_eqb_neq. intros <-. apply H. apply in_map. exact Hc.
Qed.

Lemma find_by_id_none_iff s id : find_by_id s id = None <-> ~ In id (map nc_id (connected s)).
Proof.
  unfold find_by_id, connected. rewrite find_slot_by_none. split.
  - intros H Hin. apply in_map_iff in Hin. destruct Hin as [c [<- Hc]].
    specialize (H _ Hc). rewrite N.eqb_refl in H. discriminate.
  - intros H c Hc. apply N.eqb_neq. intros <-. apply H. apply in_map. exact Hc.
Qed.

Lemma table_inv_tbl s : table_inv s <-> tbl (connected s) (ns_pending s).
Proof.
  unfold table_inv, tbl. rewrite distinct_N_NoDup, !distinct_addr_NoDup.
  split; intros (H1 & H2 & H3 & H4 & H5 & H6); repeat split; auto.
  - apply (H4 _ _ H).
  - apply find_by_addr_none_iff. apply (H4 _ _ H).
  - apply (H4 _ _ H).
  - apply find_by_addr_none_iff. apply (H4 _ _ H).
Qed.

Lemma tbl_replace l1 c c' l2 p :
  tbl (l1 ++ c :: l2) p -> nc_id c' = nc_id c -> nc_addr c' = nc_addr c -> rp_wf (nc_replay c') ->
  tbl (l1 ++ c' :: l2) p.
Proof.
  intros (H1 & H2 & H3 & H4 & H5 & H6) Ei Ea W. unfold tbl.
  rewrite !map_app in *. cbn [map] in *. rewrite Ei, Ea. repeat split; auto.
  - apply (H4 _ _ H).
  - apply (H4 _ _ H).
  - apply Forall_app in H5. destruct H5 as [F1 F2]. inversion F2; subst.
    apply Forall_app. split; [auto|]. constructor; auto.
Qed.

Lemma tbl_remove l1 c l2 p : tbl (l1 ++ c :: l2) p -> tbl (l1 ++ l2) p.
Proof.
  intros (H1 & H2 & H3 & H4 & H5 & H6). unfold tbl.
  rewrite !map_app in *. cbn [map] in *. repeat split; auto.
  - apply NoDup_remove_1 in H1. exact H1.
  - apply NoDup_remove_1 in H2. exact H2.
  - apply (H4 _ _ H).
  - destruct (H4 _ _ H) as [_ Hn]. intros Hin. apply Hn.
    apply in_app_or in Hin. apply in_or_app. destruct Hin; [left|right; right]; assumption.
  - apply Forall_app in H5. destruct H5 as [F1 F2]. inversion F2; subst.
    apply Forall_app. split; auto.
Qed.

Lemma tbl_insert l1 c l2 p :
  tbl (l1 ++ l2) p ->
  ~ In (nc_id c) (map nc_id (l1 ++ l2)) -> ~ In (nc_addr c) (map nc_addr (l1 ++ l2)) ->
  ~ In (nc_addr c) (map fst p) -> rp_wf (nc_replay c) ->
  tbl (l1 ++ c :: l2) p.
Proof.
  intros (H1 & H2 & H3 & H4 & H5 & H6) Ni Na Np W. unfold tbl.
  rewrite !map_app in *. cbn [map] in *. repeat split; auto.
  - apply NoDup_insert; assumption.
  - apply NoDup_insert; assumption.
  - apply (H4 _ _ H).
  - destruct (H4 _ _ H) as [_ Hn]. intros Hin.
    apply in_app_or in Hin. destruct Hin as [Hin|[Hin|Hin]].
    + apply Hn. apply in_or_app. left. exact Hin.
    + subst a. apply Np. apply in_map_iff. exists (nc_addr c, c0). split; [reflexivity | exact H].
    + apply Hn. apply in_or_app. right. exact Hin.
  - apply Forall_app in H5. destruct H5 as [F1 F2].
    apply Forall_app. split; [auto|]. constructor; auto.
Qed.

(* any change of the pending list that keeps the keys distinct and only adds well-formed entries for
   addresses that are not connected *)
Lemma tbl_pending cs p p' :
  tbl cs p -> NoDup (map fst p') ->
  (forall a c, In (a, c) p' -> In (a, c) p \/ (nc_addr c = a /\ ~ In a (map nc_addr cs) /\ rp_wf (nc_replay c))) ->
  tbl cs p'.
Proof.
  intros (H1 & H2 & H3 & H4 & H5 & H6) Hd Hin. unfold tbl. repeat split; auto.
  - destruct (Hin _ _ H) as [Ho|[Hn _]]; [apply (H4 _ _ Ho) | exact Hn].
  - destruct (Hin _ _ H) as [Ho|[_ [Hn _]]]; [apply (H4 _ _ Ho) | exact Hn].
  - apply Forall_forall. intros [a c] Hx. cbn [snd].
    destruct (Hin _ _ Hx) as [Ho|[_ [_ W]]]; [|exact W].
    rewrite Forall_forall in H6. apply (H6 _ Ho).
Qed.

(* ------------------------------------------------------------------ *)
(* slots of a server state                                             *)
(* ------------------------------------------------------------------ *)
(* a successful lookup splits the slot list *)
Lemma lookup_split f s slot c :
  find_slot_by f (ns_clients s) 0 = Some (slot, c) ->
  exists l1 l2, ns_clients s = l1 ++ Some c :: l2 /\ N.to_nat slot = length l1 /\ f c = true /\
    (forall c', In c' (some_list l1) -> f c' = false) /\
    (forall x, ns_clients (set_slot s slot x) = l1 ++ x :: l2).
Proof.
  intros H. apply find_slot_by_some in H. destruct H as [l1 [l2 [E1 [E2 [E3 E4]]]]].
  exists l1, l2. assert (N.to_nat slot = length l1) by (subst slot; unfold len; lia).
  repeat split; auto. intros x. unfold set_slot. nsimpl. rewrite E1, H. apply upd_app_mid.
Qed.

Lemma free_split s idx :
  first_free (ns_clients s) 0 = Some idx ->
  exists l1 l2, ns_clients s = l1 ++ None :: l2 /\ N.to_nat idx = length l1 /\
    (forall x, ns_clients (set_slot s idx x) = l1 ++ x :: l2).
Proof.
  intros H. apply first_free_some in H. destruct H as [l1 [l2 [E1 E2]]].
  exists l1, l2. assert (N.to_nat idx = length l1) by (subst idx; unfold len; lia).
  repeat split; auto. intros x. unfold set_slot. nsimpl. rewrite E1, H. apply upd_app_mid.
Qed.

Lemma connected_split l1 (x : option nconn) l2 :
  some_list (l1 ++ x :: l2) = some_list l1 ++ match x with Some c => c :: some_list l2 | None => some_list l2 end.
Proof. rewrite some_list_app. destruct x; reflexivity. Qed.

(* ------------------------------------------------------------------ *)
(* handle_request: the outcomes                                        *)
(* ------------------------------------------------------------------ *)
Definition fresh_conn (t : private_token) (a : addr) (now expire cseq : N) : nconn :=
  {| nc_confirmed := false; nc_id := pt_client_id t; nc_send_key := pt_s2c t;
     nc_recv_key := pt_c2s t; nc_user := pt_user t; nc_addr := a;
     nc_last_recv := now; nc_last_send := now; nc_timeout := pt_timeout t;
     nc_seq := 0; nc_expire := expire; nc_replay := replay_new; nc_chal_floor := cseq |}.

Definition refresh_conn (old : nconn) (now : N) : nconn :=
  {| nc_confirmed := nc_confirmed old; nc_id := nc_id old; nc_send_key := nc_send_key old;
     nc_recv_key := nc_recv_key old; nc_user := nc_user old; nc_addr := nc_addr old;
     nc_last_recv := now; nc_last_send := now; nc_timeout := nc_timeout old;
     nc_seq := nc_seq old; nc_expire := nc_expire old; nc_replay := nc_replay old;
     nc_chal_floor := nc_chal_floor old |}.

Definition pending_entry (s : nserver) (a : addr) (t : private_token) (expire cseq : N) : nconn :=
  match pend_find a (ns_pending s) with
  | Some old => refresh_conn old (ns_now s)
  | None => fresh_conn t a (ns_now s) expire cseq
  end.

Inductive hr_spec (s : nserver) (a : addr) (ex : N) (xn data : list N) : nserver -> nres sresult -> Prop :=
| HR_quiet es r :
    (r = Ok SRNone \/ exists e, r = Err e) ->
    hr_spec s a ex xn data (set_entries s es) r
| HR_denied t es out s' :
    private_decode data (ns_protocol s) ex xn (ns_connect_key s) = Ok t ->
    find_by_addr s a = None -> find_by_id s (pt_client_id t) = None ->
    ns_max s <= connected_count s ->
    encode OUT_CAP PDenied (ns_protocol s) (Some (ns_global_seq s, pt_s2c t)) = Ok out ->
    s' = set_seqs (set_pending (set_entries s es) (pend_remove a (ns_pending s))) (ns_global_seq s + 1) (ns_chal_seq s) ->
    hr_spec s a ex xn data s' (Ok (SRPacketToSend a out))
| HR_challenge t es out s' :
    private_decode data (ns_protocol s) ex xn (ns_connect_key s) = Ok t ->
    find_by_addr s a = None -> find_by_id s (pt_client_id t) = None ->
    connected_count s < ns_max s ->
    encode OUT_CAP (generate_challenge (pt_client_id t) (pt_user t) (ns_chal_seq s + 1) (ns_chal_key s))
           (ns_protocol s) (Some (ns_global_seq s, pt_s2c t)) = Ok out ->
    s' = set_pending (set_seqs (set_entries s es) (ns_global_seq s + 1) (ns_chal_seq s + 1))
                     (pend_put a (pending_entry s a t ex (ns_chal_seq s + 1)) (ns_pending s)) ->
    hr_spec s a ex xn data s' (Ok (SRPacketToSend a out)).

Lemma handle_request_spec s a v pr ex xn data s' r :
  handle_request s a v pr ex xn data = (s', r) -> hr_spec s a ex xn data s' r.
Proof.
  unfold handle_request.
  assert (Q : forall r0, (r0 = Ok SRNone \/ exists e, r0 = Err e) -> (s, r0) = (s', r) -> hr_spec s a ex xn data s' r).
  { intros r0 Hr H. injection H as <- <-.
    pose proof (HR_quiet s a ex xn data (ns_entries s) r0 Hr) as K. rewrite set_entries_id in K. exact K. }
  destruct (negb (bytes_eqb v NC_VERSION_INFO)); [apply Q; right; eauto|].
  destruct (negb (pr =? ns_protocol s)); [apply Q; right; eauto|].
  destruct (ex <=? as_secs (ns_now s)); [apply Q; right; eauto|].
  destruct (private_decode data (ns_protocol s) ex xn (ns_connect_key s)) as [t|e|site] eqn:Ept;
    [|apply Q; right; eauto | exfalso; apply (private_decode_no_panic _ _ _ _ _ _ Ept)].
  destruct (ns_secure s && negb (in_host_list s t)); [apply Q; right; eauto|].
  destruct (find_by_addr s a) as [[sl0 c0]|] eqn:Ea; [apply Q; left; reflexivity|].
  destruct (find_by_id s (pt_client_id t)) as [[sl0 c0]|] eqn:Ei; [apply Q; left; reflexivity|].
  match goal with |- (if ?c then _ else _) = _ -> _ => destruct c; [apply Q; left; reflexivity|] end.
  destruct (find_or_add_entry _ _) as [es allowed] eqn:Ee.
  destruct (negb allowed).
  { intros H. injection H as <- <-. apply HR_quiet. left. reflexivity. }
  nsimpl. fold (connected_count s).
  change (connected_count (set_entries s es)) with (connected_count s).
  destruct (ns_max s <=? connected_count s) eqn:Em.
  - destruct (encode_small_ok PDenied (ns_protocol s) (ns_global_seq s) (pt_s2c t)) as [out Eo].
    { cbn [packet_id]. lia. } { cbn [packet_body]. rewrite len_nil. lia. }
    rewrite Eo. intros H. injection H as <- <-.
    apply (HR_denied s a ex xn data t es out); try assumption; try lia; reflexivity.
  - pose proof (private_decode_user_len _ _ _ _ _ _ Ept) as Hu.
    destruct (encode_small_ok (generate_challenge (pt_client_id t) (pt_user t) (ns_chal_seq s + 1) (ns_chal_key s))
                (ns_protocol s) (ns_global_seq s) (pt_s2c t)) as [out Eo].
    { rewrite generate_challenge_id. lia. }
    { rewrite challenge_body_len by exact Hu. rewrite challenge_val. lia. }
    rewrite Eo. intros H. injection H as <- <-.
    apply (HR_challenge s a ex xn data t es out); try assumption; try lia; reflexivity.
Qed.

(* ------------------------------------------------------------------ *)
(* process_packet_internal: the outcomes                               *)
(* ------------------------------------------------------------------ *)
Definition promote (pc : nconn) (cuser : list N) (now : N) : nconn :=
  {| nc_confirmed := nc_confirmed pc; nc_id := nc_id pc; nc_send_key := nc_send_key pc;
     nc_recv_key := nc_recv_key pc; nc_user := cuser; nc_addr := nc_addr pc;
     nc_last_recv := now; nc_last_send := now; nc_timeout := nc_timeout pc;
     nc_seq := nc_seq pc + 1; nc_expire := nc_expire pc; nc_replay := nc_replay pc;
     nc_chal_floor := nc_chal_floor pc |}.

Definition REQUEST_MIN : N := 1 + (13 + 8 + 8 + NC_XNONCE_BYTES + NC_PRIVATE_BYTES).
Definition RESPONSE_MIN : N := 1 + (8 + NC_CHALLENGE_BYTES) + NC_MAC_BYTES.

Inductive ppi_spec (s : nserver) (a : addr) (buf : list N) : nserver -> nres sresult -> Prop :=
| PP_drop e : ppi_spec s a buf s (Err e)
(* connected address *)
| PPC_stay slot c rp c2 r :
    find_by_addr s a = Some (slot, c) ->
    (rp_wf (nc_replay c) -> rp_wf rp) ->
    (c2 = nc_with_replay c rp \/ c2 = nc_received (nc_with_replay c rp) (ns_now s)) ->
    ((exists e, r = Err e) \/ r = Ok SRNone \/ exists p, r = Ok (SRPayload (nc_id c) p)) ->
    ppi_spec s a buf (set_slot s slot (Some c2)) r
| PPC_disc slot c :
    find_by_addr s a = Some (slot, c) ->
    ppi_spec s a buf (set_slot s slot None) (Ok (SRDisconnected (nc_id c) a None))
(* pending address *)
| PPP_quiet pc rp r :
    find_by_addr s a = None -> pend_find a (ns_pending s) = Some pc ->
    (rp_wf (nc_replay pc) -> rp_wf rp) ->
    (r = Ok SRNone \/ exists e, r = Err e) ->
    ppi_spec s a buf (set_pending s (pend_put a (nc_with_replay pc rp) (ns_pending s))) r
| PPP_request pc rp ex xn data s' r :
    find_by_addr s a = None -> pend_find a (ns_pending s) = Some pc ->
    (rp_wf (nc_replay pc) -> rp_wf rp) ->
    REQUEST_MIN <= len buf ->
    hr_spec (set_pending s (pend_put a (nc_with_replay pc rp) (ns_pending s))) a ex xn data s' r ->
    ppi_spec s a buf s' r
| PPP_dup pc rp :
    find_by_addr s a = None -> pend_find a (ns_pending s) = Some pc ->
    (rp_wf (nc_replay pc) -> rp_wf rp) ->
    ppi_spec s a buf (set_pending s (pend_remove a (pend_put a (nc_with_replay pc rp) (ns_pending s)))) (Ok SRNone)
| PPP_denied pc rp out s' :
    find_by_addr s a = None -> pend_find a (ns_pending s) = Some pc ->
    (rp_wf (nc_replay pc) -> rp_wf rp) ->
    RESPONSE_MIN <= len buf ->
    first_free (ns_clients s) 0 = None ->
    encode OUT_CAP PDenied (ns_protocol s) (Some (ns_global_seq s, nc_send_key pc)) = Ok out ->
    s' = set_seqs (set_pending s (pend_remove a (pend_put a (nc_with_replay pc rp) (ns_pending s))))
                  (ns_global_seq s + 1) (ns_chal_seq s) ->
    ppi_spec s a buf s' (Ok (SRPacketToSend a out))
| PPP_connected pc rp idx cuser out s' :
    find_by_addr s a = None -> pend_find a (ns_pending s) = Some pc ->
    (rp_wf (nc_replay pc) -> rp_wf rp) ->
    RESPONSE_MIN <= len buf ->
    find_by_id s (nc_id pc) = None ->
    first_free (ns_clients s) 0 = Some idx ->
    encode OUT_CAP (PKeepAlive idx (ns_max s)) (ns_protocol s) (Some (nc_seq pc, nc_send_key pc)) = Ok out ->
    s' = set_slot (set_pending s (pend_remove a (pend_put a (nc_with_replay pc rp) (ns_pending s)))) idx
                  (Some (promote (nc_with_replay pc rp) cuser (ns_now s))) ->
    ppi_spec s a buf s' (Ok (SRConnected (nc_id pc) a cuser out))
(* unknown address *)
| PPU_request ex xn data s' r :
    find_by_addr s a = None -> pend_find a (ns_pending s) = None ->
    REQUEST_MIN <= len buf ->
    hr_spec s a ex xn data s' r ->
    ppi_spec s a buf s' r.

Lemma decode_replay_opt buf proto key r rp dr :
  decode buf proto key (Some r) = (rp, dr) -> rp_wf r -> rp_wf (opt_replay rp r).
Proof.
  intros H W. destruct (decode_replay_wf buf proto key r W) as [r' [E W']].
  rewrite H in E. cbn [fst] in E. subst rp. exact W'.
Qed.

Lemma process_packet_internal_spec s a buf s' r :
  process_packet_internal s a buf = (s', r) -> ppi_spec s a buf s' r.
Proof.
  unfold process_packet_internal.
  destruct (len buf <? 2 + NC_MAC_BYTES).
  { intros H. injection H as <- <-. constructor. }
  destruct (find_by_addr s a) as [[slot c]|] eqn:Ea.
  { (* connected *)
    destruct (decode buf (ns_protocol s) (Some (nc_recv_key c)) (Some (nc_replay c))) as [rp dr] eqn:Ed.
    pose proof (decode_replay_opt _ _ _ _ _ _ Ed) as W.
    pose proof (decode_no_panic buf (ns_protocol s) (Some (nc_recv_key c)) (Some (nc_replay c))) as NP.
    rewrite Ed in NP. cbn [snd] in NP.
    destruct dr as [[q pkt]|e|site]; [| |exfalso; apply (NP site); reflexivity].
    - destruct pkt; intros H; injection H as <- <-;
        try (apply (PPC_stay s a buf slot c _ _ _ Ea W (or_introl eq_refl)); right; left; reflexivity).
      + rewrite set_slot_twice. nsimpl.
        apply (PPC_stay s a buf slot c _ _ _ Ea W (or_intror eq_refl)). right; left; reflexivity.
      + rewrite set_slot_twice. nsimpl.
        apply (PPC_stay s a buf slot c _ _ _ Ea W (or_intror eq_refl)). right; right. eexists; reflexivity.
      + rewrite set_slot_twice. nsimpl. apply (PPC_disc s a buf slot c Ea).
    - intros H; injection H as <- <-.
      apply (PPC_stay s a buf slot c _ _ _ Ea W (or_introl eq_refl)). left. eexists; reflexivity. }
  destruct (pend_find a (ns_pending s)) as [pc|] eqn:Ep.
  { (* pending *)
    destruct (decode buf (ns_protocol s) (Some (nc_recv_key pc)) (Some (nc_replay pc))) as [rp dr] eqn:Ed.
    pose proof (decode_replay_opt _ _ _ _ _ _ Ed) as W.
    pose proof (decode_no_panic buf (ns_protocol s) (Some (nc_recv_key pc)) (Some (nc_replay pc))) as NP.
    rewrite Ed in NP. cbn [snd] in NP.
    destruct dr as [[q pkt]|e|site]; [| |exfalso; apply (NP site); reflexivity].
    2:{ intros H; injection H as <- <-. apply (PPP_quiet s a buf pc _ _ Ea Ep W). right. eexists; reflexivity. }
    destruct pkt as [v pr ex xn data| |ts td|ts td|ci mc|pl|];
      try (intros H; injection H as <- <-; apply (PPP_quiet s a buf pc _ _ Ea Ep W); left; reflexivity).
    - (* request *)
      intros H. apply handle_request_spec in H.
      apply (PPP_request s a buf pc _ ex xn data s' r Ea Ep W); [|exact H].
      apply (decode_request_len _ _ _ _ _ _ _ Ed). reflexivity.
    - (* response *)
      assert (RL : RESPONSE_MIN <= len buf) by (apply (decode_response_len _ _ _ _ _ _ _ Ed); reflexivity).
      nsimpl.
      destruct (challenge_decode td ts (ns_chal_key s)) as [[cid cuser]|e|site] eqn:Ec;
        [| intros H; injection H as <- <-; apply (PPP_quiet s a buf pc _ _ Ea Ep W); right; eexists; reflexivity
         | exfalso; apply (challenge_decode_no_panic _ _ _ _ Ec)].
      destruct (ts <? nc_chal_floor pc).
      { intros H; injection H as <- <-; apply (PPP_quiet s a buf pc _ _ Ea Ep W); left; reflexivity. }
      destruct (negb (cid =? nc_id pc) || negb (bytes_eqb cuser (nc_user pc))) eqn:Ek.
      { intros H; injection H as <- <-; apply (PPP_quiet s a buf pc _ _ Ea Ep W); left; reflexivity. }
      apply orb_false_elim in Ek. destruct Ek as [Ek _]. apply negb_false_iff, N.eqb_eq in Ek. subst cid.
      change (find_by_id (set_pending (set_pending s (pend_put a (nc_with_replay pc (opt_replay rp (nc_replay pc))) (ns_pending s)))
                 (pend_remove a (pend_put a (nc_with_replay pc (opt_replay rp (nc_replay pc))) (ns_pending s)))) (nc_id pc))
        with (find_by_id s (nc_id pc)).
      destruct (find_by_id s (nc_id pc)) as [[sl0 c0]|] eqn:Ei.
      { intros H; injection H as <- <-. apply (PPP_dup s a buf pc _ Ea Ep W). }
      destruct (first_free (ns_clients s) 0) as [idx|] eqn:Ef.
      + destruct (encode_small_ok (PKeepAlive idx (ns_max s)) (ns_protocol s) (nc_seq pc) (nc_send_key pc)) as [out Eo].
        { cbn [packet_id]. lia. }
        { cbn [packet_body]. unfold le32. rewrite len_app, !len_le_bytes. lia. }
        rewrite Eo. intros H; injection H as <- <-.
        apply (PPP_connected s a buf pc _ idx cuser out _ Ea Ep W RL Ei Ef Eo). reflexivity.
      + destruct (encode_small_ok PDenied (ns_protocol s) (ns_global_seq s) (nc_send_key pc)) as [out Eo].
        { cbn [packet_id]. lia. } { cbn [packet_body]. rewrite len_nil. lia. }
        rewrite Eo. intros H; injection H as <- <-.
        apply (PPP_denied s a buf pc _ out _ Ea Ep W RL Ef Eo). reflexivity. }
  (* unknown address *)
  destruct (decode buf (ns_protocol s) None None) as [rp dr] eqn:Ed.
  pose proof (decode_no_panic buf (ns_protocol s) None None) as NP.
  rewrite Ed in NP. cbn [snd] in NP.
  destruct dr as [[q pkt]|e|site]; [| |exfalso; apply (NP site); reflexivity].
  2:{ intros H; injection H as <- <-. constructor. }
  pose proof (decode_nokey_request _ _ _ _ _ _ Ed) as Hid.
  destruct pkt as [v pr ex xn data| |ts td|ts td|ci mc|pl|]; cbn [packet_id] in Hid; try discriminate.
  intros H. apply handle_request_spec in H.
  apply (PPU_request s a buf ex xn data s' r Ea Ep); [|exact H].
  apply (decode_request_len _ _ _ _ _ _ _ Ed). reflexivity.
Qed.

Lemma hr_spec_no_panic s a ex xn data s' r : hr_spec s a ex xn data s' r -> forall site, r <> Panic site.
Proof. intros H site. destruct H as [es r [->|[e ->]]| |]; discriminate. Qed.

Lemma ppi_spec_no_panic s a buf s' r : ppi_spec s a buf s' r -> forall site, r <> Panic site.
Proof.
  intros H site. destruct H; try discriminate.
  - destruct H2 as [[e ->]|[->|[p ->]]]; discriminate.
  - destruct H2 as [->|[e ->]]; discriminate.
  - apply (hr_spec_no_panic _ _ _ _ _ _ _ H3).
  - apply (hr_spec_no_panic _ _ _ _ _ _ _ H2).
Qed.

(* process_packet in terms of the internal function: errors are swallowed *)
Definition res_of (r0 : nres sresult) : sresult := match r0 with Ok r => r | _ => SRNone end.

Lemma process_packet_inv s a buf s' r :
  process_packet s a buf = Ok (s', r) -> exists r0, ppi_spec s a buf s' r0 /\ r = res_of r0.
Proof.
  unfold process_packet. destruct (process_packet_internal s a buf) as [s1 r0] eqn:E.
  apply process_packet_internal_spec in E.
  destruct r0 as [x|e|site]; intros H; try discriminate; injection H as <- <-.
  - exists (Ok x). split; [exact E | reflexivity].
  - exists (Err e). split; [exact E | reflexivity].
Qed.

(* ------------------------------------------------------------------ *)
(* A. no panic                                                         *)
(* ------------------------------------------------------------------ *)
Theorem process_packet_no_panic s : table_inv s -> forall a buf, exists s' r, process_packet s a buf = Ok (s', r).
Proof.
  intros _ a buf. unfold process_packet.
  destruct (process_packet_internal s a buf) as [s1 r0] eqn:E.
  pose proof (ppi_spec_no_panic _ _ _ _ _ (process_packet_internal_spec _ _ _ _ _ E)) as NP.
  destruct r0 as [x|e|site]; [eauto | eauto | exfalso; apply (NP site); reflexivity].
Qed.

Theorem update_client_no_panic s : table_inv s -> forall id, exists s' r, update_client s id = Ok (s', r).
Proof.
  intros _ id. unfold update_client.
  destruct (find_by_id s id) as [[slot c]|]; [|eauto].
  match goal with |- exists _ _, (if ?b then _ else _) = _ => destruct b end.
  - destruct (encode OUT_CAP PDisconnect _ _) eqn:E; [eauto | eauto | exfalso; apply (encode_no_panic _ _ _ _ _ E)].
  - destruct (_ <=? _); [|eauto].
    destruct (encode OUT_CAP (PKeepAlive _ _) _ _) eqn:E; [eauto | eauto | exfalso; apply (encode_no_panic _ _ _ _ _ E)].
Qed.

Theorem nserver_disconnect_no_panic s : table_inv s -> forall id, exists s' r, nserver_disconnect s id = Ok (s', r).
Proof.
  intros _ id. unfold nserver_disconnect.
  destruct (find_by_id s id) as [[slot c]|]; [|eauto].
  destruct (encode OUT_CAP PDisconnect _ _) eqn:E; [eauto | eauto | exfalso; apply (encode_no_panic _ _ _ _ _ E)].
Qed.

Theorem generate_payload_no_panic s id payload :
  forall site, snd (generate_payload_packet s id payload) <> Panic site.
Proof.
  intros site. unfold generate_payload_packet.
  destruct (_ <? _); [discriminate|].
  destruct (find_by_id s id) as [[slot c]|]; [|discriminate].
  destruct (encode OUT_CAP (PPayload payload) _ _) eqn:E; cbn [snd]; try discriminate.
  exfalso. apply (encode_no_panic _ _ _ _ _ E).
Qed.

Theorem nsstep_no_panic s : table_inv s -> forall o, exists s' out, nsstep s o = Ok (s', out).
Proof.
  intros T o. destruct o as [a buf|dt|id|id|id p|m]; cbn [nsstep].
  - destruct (process_packet_no_panic s T a buf) as [s' [r ->]]. cbn [bind]. eauto.
  - eauto.
  - destruct (update_client_no_panic s T id) as [s' [r ->]]. cbn [bind]. eauto.
  - destruct (nserver_disconnect_no_panic s T id) as [s' [r ->]]. cbn [bind]. eauto.
  - pose proof (generate_payload_no_panic s id p) as NP.
    destruct (generate_payload_packet s id p) as [s' r]. cbn [snd] in NP.
    destruct r; [eauto | eauto | exfalso; apply (NP site); reflexivity].
  - eauto.
Qed.

(* ------------------------------------------------------------------ *)
(* B. the connection table invariant                                   *)
(* ------------------------------------------------------------------ *)
Lemma tbl_pend_put cs p a c :
  tbl cs p -> nc_addr c = a -> ~ In a (map nc_addr cs) -> rp_wf (nc_replay c) -> tbl cs (pend_put a c p).
Proof.
  intros T Ha Hn W. pose proof T as (_ & _ & Hd & _).
  destruct (pend_find a p) as [old|] eqn:E.
  - apply (tbl_pending cs p); [exact T | rewrite (pend_put_found_keys _ _ _ _ E); exact Hd |].
    intros a' c' Hin. destruct (pend_put_found_In _ _ _ _ _ E Hin) as [Hx|[Hx _]].
    + injection Hx as -> ->. right. auto.
    + left. exact Hx.
  - rewrite (pend_put_new _ _ _ E).
    apply (tbl_pending cs p); [exact T | |].
    + rewrite map_app. cbn [map fst]. apply NoDup_snoc; [exact Hd|]. apply pend_find_none. exact E.
    + intros a' c' Hin. apply in_app_or in Hin. destruct Hin as [Hin|[Hx|[]]].
      * left. exact Hin.
      * injection Hx as <- <-. right. auto.
Qed.

Lemma tbl_pend_remove cs p a : tbl cs p -> tbl cs (pend_remove a p).
Proof.
  intros T. pose proof T as (_ & _ & Hd & _).
  apply (tbl_pending cs p); [exact T | apply pend_remove_keys; exact Hd |].
  intros a' c' Hin. left. apply (pend_remove_In _ _ _ Hin).
Qed.

Lemma tbl_pend_filter cs p f : tbl cs p -> tbl cs (filter f p).
Proof.
  intros T. pose proof T as (_ & _ & Hd & _).
  apply (tbl_pending cs p); [exact T | apply NoDup_map_filter; exact Hd |].
  intros a' c' Hin. left. apply filter_In in Hin. tauto.
Qed.

Lemma tbl_pending_wf cs p a c : tbl cs p -> In (a, c) p -> nc_addr c = a /\ rp_wf (nc_replay c).
Proof.
  intros (_ & _ & _ & H4 & _ & H6) Hin. split; [apply (H4 _ _ Hin)|].
  rewrite Forall_forall in H6. apply (H6 _ Hin).
Qed.

Lemma tbl_connected_wf l1 c l2 p : tbl (l1 ++ c :: l2) p -> rp_wf (nc_replay c).
Proof.
  intros (_ & _ & _ & _ & H5 & _). rewrite Forall_forall in H5. apply H5.
  apply in_or_app. right. left. reflexivity.
Qed.

Lemma table_inv_of s' cs p : connected s' = cs -> ns_pending s' = p -> tbl cs p -> table_inv s'.
Proof. intros <- <- T. apply table_inv_tbl. exact T. Qed.

Theorem table_inv_init now max protocol addrs key chal s :
  max <= NC_MAX_CLIENTS -> nserver_new now max protocol addrs key chal = Ok s -> table_inv s.
Proof.
  intros Hm. unfold nserver_new. destruct (NC_MAX_CLIENTS <? max) eqn:E; [lia|].
  intros H. injection H as <-.
  apply (table_inv_of _ [] []); [unfold connected; nsimpl; apply some_list_repeat_none | reflexivity |].
  unfold tbl. cbn [map]. repeat split; try constructor; destruct H.
Qed.

Lemma hr_spec_table_inv s a ex xn data s' r :
  hr_spec s a ex xn data s' r -> table_inv s -> table_inv s'.
Proof.
  intros H T. apply table_inv_tbl in T. destruct H.
  - apply (table_inv_of _ (connected s) (ns_pending s)); [reflexivity | reflexivity | exact T].
  - subst s'. apply (table_inv_of _ (connected s) (pend_remove a (ns_pending s))); [reflexivity | reflexivity |].
    apply tbl_pend_remove. exact T.
  - subst s'. apply (table_inv_of _ (connected s) (pend_put a (pending_entry s a t ex (ns_chal_seq s + 1)) (ns_pending s)));
      [reflexivity | reflexivity |].
    apply find_by_addr_none_iff in H0.
    apply tbl_pend_put; [exact T | | exact H0 |]; unfold pending_entry;
      destruct (pend_find a (ns_pending s)) as [old|] eqn:E; cbn [refresh_conn fresh_conn nc_addr nc_replay];
      try reflexivity; try apply replay_new_wf;
      apply pend_find_In in E; apply (tbl_pending_wf _ _ _ _ T E).
Qed.

Lemma ppi_spec_table_inv s a buf s' r :
  ppi_spec s a buf s' r -> table_inv s -> table_inv s'.
Proof.
  intros H T. pose proof T as T0. apply table_inv_tbl in T.
  assert (PQ : forall pc rp, find_by_addr s a = None -> pend_find a (ns_pending s) = Some pc ->
            (rp_wf (nc_replay pc) -> rp_wf rp) ->
            tbl (connected s) (pend_put a (nc_with_replay pc rp) (ns_pending s))).
  { intros pc rp Ea Ep W. apply pend_find_In in Ep. destruct (tbl_pending_wf _ _ _ _ T Ep) as [Hx Hw].
    apply tbl_pend_put; [exact T | exact Hx | apply find_by_addr_none_iff; exact Ea | apply W; exact Hw]. }
  destruct H.
  - exact T0.
  - (* connected, stays *)
    destruct (lookup_split _ _ _ _ H) as [l1 [l2 [E1 [E2 [E3 [E4 E5]]]]]].
    unfold connected in T. rewrite E1, connected_split in T.
    apply (table_inv_of _ (some_list l1 ++ c2 :: some_list l2) (ns_pending s));
      [unfold connected; rewrite E5, connected_split; reflexivity | reflexivity |].
    pose proof (tbl_connected_wf _ _ _ _ T) as Wc.
    apply (tbl_replace _ c); [exact T | | |]; destruct H1 as [-> | ->]; nsimpl; auto.
  - (* connected, disconnects *)
    destruct (lookup_split _ _ _ _ H) as [l1 [l2 [E1 [E2 [E3 [E4 E5]]]]]].
    unfold connected in T. rewrite E1, connected_split in T.
    apply (table_inv_of _ (some_list l1 ++ some_list l2) (ns_pending s));
      [unfold connected; rewrite E5, connected_split; reflexivity | reflexivity |].
    apply (tbl_remove _ c). exact T.
  - apply (table_inv_of _ (connected s) (pend_put a (nc_with_replay pc rp) (ns_pending s))); [reflexivity | reflexivity |].
    apply PQ; assumption.
  - apply (hr_spec_table_inv _ _ _ _ _ _ _ H3).
    apply (table_inv_of _ (connected s) (pend_put a (nc_with_replay pc rp) (ns_pending s))); [reflexivity | reflexivity |].
    apply PQ; assumption.
  - apply (table_inv_of _ (connected s) (pend_remove a (pend_put a (nc_with_replay pc rp) (ns_pending s))));
      [reflexivity | reflexivity |].
    apply tbl_pend_remove. apply PQ; assumption.
  - subst s'.
    apply (table_inv_of _ (connected s) (pend_remove a (pend_put a (nc_with_replay pc rp) (ns_pending s))));
      [reflexivity | reflexivity |].
    apply tbl_pend_remove. apply PQ; assumption.
  - (* promoted to a slot *)
    subst s'.
    pose proof (PQ pc rp H H0 H1) as T1. apply (tbl_pend_remove _ _ a) in T1.
    set (p' := pend_remove a (pend_put a (nc_with_replay pc rp) (ns_pending s))) in *.
    destruct (free_split (set_pending s p') idx H4) as [l1 [l2 [E1 [E2 E5]]]].
    nsimpl_in E1.
    assert (Ec : connected s = some_list l1 ++ some_list l2).
    { unfold connected. rewrite E1, connected_split. reflexivity. }
    apply (table_inv_of _ (some_list l1 ++ promote (nc_with_replay pc rp) cuser (ns_now s) :: some_list l2) p').
    { unfold connected. rewrite E5, connected_split. reflexivity. }
    { reflexivity. }
    rewrite Ec in T1.
    pose proof H0 as Hin. apply pend_find_In in Hin. destruct (tbl_pending_wf _ _ _ _ T Hin) as [Hx Hw].
    apply tbl_insert; [exact T1 | | | |]; cbn [promote nc_id nc_addr nc_replay nc_with_replay].
    + rewrite <- Ec. apply find_by_id_none_iff. exact H3.
    + rewrite <- Ec, Hx. apply find_by_addr_none_iff. exact H.
    + rewrite Hx. destruct T as (_ & _ & Hd & _). apply pend_remove_keys.
      rewrite (pend_put_found_keys _ _ _ _ H0). exact Hd.
    + apply H1. exact Hw.
  - apply (hr_spec_table_inv _ _ _ _ _ _ _ H2). exact T0.
Qed.

Lemma table_inv_slot_update f s slot c c' :
  table_inv s -> find_slot_by f (ns_clients s) 0 = Some (slot, c) ->
  nc_id c' = nc_id c -> nc_addr c' = nc_addr c -> nc_replay c' = nc_replay c ->
  table_inv (set_slot s slot (Some c')).
Proof.
  intros T H Ei Ea Er. apply table_inv_tbl in T.
  destruct (lookup_split _ _ _ _ H) as [l1 [l2 [E1 [E2 [E3 [E4 E5]]]]]].
  unfold connected in T. rewrite E1, connected_split in T.
  apply (table_inv_of _ (some_list l1 ++ c' :: some_list l2) (ns_pending s));
    [unfold connected; rewrite E5, connected_split; reflexivity | reflexivity |].
  apply (tbl_replace _ c); auto. rewrite Er. apply (tbl_connected_wf _ _ _ _ T).
Qed.

Lemma table_inv_slot_clear f s slot c :
  table_inv s -> find_slot_by f (ns_clients s) 0 = Some (slot, c) -> table_inv (set_slot s slot None).
Proof.
  intros T H. apply table_inv_tbl in T.
  destruct (lookup_split _ _ _ _ H) as [l1 [l2 [E1 [E2 [E3 [E4 E5]]]]]].
  unfold connected in T. rewrite E1, connected_split in T.
  apply (table_inv_of _ (some_list l1 ++ some_list l2) (ns_pending s));
    [unfold connected; rewrite E5, connected_split; reflexivity | reflexivity |].
  apply (tbl_remove _ c). exact T.
Qed.

(* the remaining API calls, as outcomes *)
Definition timed_out (s : nserver) (c : nconn) : bool :=
  (0 <? nc_timeout c)%Z && (nc_last_recv c + Z.to_N (nc_timeout c) * NS_PER_SEC <? ns_now s).

Inductive uc_spec (s : nserver) (id : N) : nserver -> sresult -> Prop :=
| UC_none : uc_spec s id s SRNone
| UC_timeout slot c p :
    find_by_id s id = Some (slot, c) -> timed_out s c = true ->
    (p = None \/ exists out, p = Some out /\
        encode OUT_CAP PDisconnect (ns_protocol s) (Some (nc_seq c, nc_send_key c)) = Ok out) ->
    uc_spec s id (set_slot s slot None) (SRDisconnected id (nc_addr c) p)
| UC_keepalive slot c out :
    find_by_id s id = Some (slot, c) -> timed_out s c = false ->
    encode OUT_CAP (PKeepAlive slot (ns_max s)) (ns_protocol s) (Some (nc_seq c, nc_send_key c)) = Ok out ->
    uc_spec s id (set_slot s slot (Some (nc_sent c (ns_now s)))) (SRPacketToSend (nc_addr c) out).

Lemma update_client_spec s id s' r : update_client s id = Ok (s', r) -> uc_spec s id s' r.
Proof.
  unfold update_client. destruct (find_by_id s id) as [[slot c]|] eqn:Ei.
  2:{ intros H; injection H as <- <-. constructor. }
  fold (timed_out s c). destruct (timed_out s c) eqn:Et.
  - destruct (encode OUT_CAP PDisconnect _ _) as [out|e|site] eqn:Eo; intros H; try discriminate;
      injection H as <- <-; apply (UC_timeout s id slot c _ Ei Et); [right; eauto | left; reflexivity].
  - destruct (_ <=? _).
    2:{ intros H; injection H as <- <-. constructor. }
    destruct (encode OUT_CAP (PKeepAlive _ _) _ _) as [out|e|site] eqn:Eo; intros H; try discriminate;
      injection H as <- <-; [apply (UC_keepalive s id slot c out Ei Et Eo) | constructor].
Qed.

(* nserver_disconnect is the time-out branch without the test *)
Inductive dc_spec (s : nserver) (id : N) : nserver -> sresult -> Prop :=
| DC_none : find_by_id s id = None -> dc_spec s id s SRNone
| DC_disc slot c p :
    find_by_id s id = Some (slot, c) ->
    (p = None \/ exists out, p = Some out /\
        encode OUT_CAP PDisconnect (ns_protocol s) (Some (nc_seq c, nc_send_key c)) = Ok out) ->
    dc_spec s id (set_slot s slot None) (SRDisconnected id (nc_addr c) p).

Lemma nserver_disconnect_spec s id s' r : nserver_disconnect s id = Ok (s', r) -> dc_spec s id s' r.
Proof.
  unfold nserver_disconnect. destruct (find_by_id s id) as [[slot c]|] eqn:Ei.
  2:{ intros H; injection H as <- <-. constructor. exact Ei. }
  destruct (encode OUT_CAP PDisconnect _ _) as [out|e|site] eqn:Eo; intros H; try discriminate;
    injection H as <- <-; apply (DC_disc s id slot c _ Ei); [right; eauto | left; reflexivity].
Qed.

Inductive gp_spec (s : nserver) (id : N) (payload : list N) : nserver -> nres (addr * list N) -> Prop :=
| GP_err e : gp_spec s id payload s (Err e)
| GP_sent slot c out :
    find_by_id s id = Some (slot, c) ->
    encode OUT_CAP (PPayload payload) (ns_protocol s) (Some (nc_seq c, nc_send_key c)) = Ok out ->
    gp_spec s id payload (set_slot s slot (Some (nc_sent c (ns_now s)))) (Ok (nc_addr c, out)).

Lemma generate_payload_spec s id payload s' r :
  generate_payload_packet s id payload = (s', r) -> gp_spec s id payload s' r.
Proof.
  unfold generate_payload_packet. destruct (_ <? _).
  { intros H; injection H as <- <-. constructor. }
  destruct (find_by_id s id) as [[slot c]|] eqn:Ei.
  2:{ intros H; injection H as <- <-. constructor. }
  destruct (encode OUT_CAP (PPayload payload) _ _) as [out|e|site] eqn:Eo; intros H; injection H as <- <-.
  - apply (GP_sent s id payload slot c out Ei Eo).
  - constructor.
  - exfalso. apply (encode_no_panic _ _ _ _ _ Eo).
Qed.

Lemma set_max_clients_clients s m :
  exists n, ns_clients (set_max_clients s m) = ns_clients s ++ repeatN None n.
Proof.
  unfold set_max_clients. destruct (len (ns_clients s) <? _).
  - eexists. reflexivity.
  - exists 0%nat. cbn [repeatN]. rewrite app_nil_r. reflexivity.
Qed.

Lemma set_max_clients_pending s m : ns_pending (set_max_clients s m) = ns_pending s.
Proof. unfold set_max_clients. destruct (len (ns_clients s) <? _); reflexivity. Qed.

Lemma table_inv_set_max s m : table_inv s -> table_inv (set_max_clients s m).
Proof.
  intros T. apply table_inv_tbl in T. destruct (set_max_clients_clients s m) as [n E].
  apply (table_inv_of _ (connected s) (ns_pending s)); [| apply set_max_clients_pending | exact T].
  unfold connected. rewrite E, some_list_app, some_list_repeat_none, app_nil_r. reflexivity.
Qed.

Lemma table_inv_update s dt : table_inv s -> table_inv (nserver_update s dt).
Proof.
  intros T. apply table_inv_tbl in T. unfold nserver_update.
  eapply table_inv_of; [reflexivity | reflexivity |]. apply tbl_pend_filter. exact T.
Qed.

Theorem table_inv_step s o s' out : table_inv s -> nsstep s o = Ok (s', out) -> table_inv s'.
Proof.
  intros T. destruct o as [a buf|dt|id|id|id p|m]; cbn [nsstep].
  - destruct (process_packet s a buf) as [[s1 r]|e|site] eqn:E; cbn [bind]; intros H; try discriminate.
    injection H as <- _. cbn [fst]. apply process_packet_inv in E. destruct E as [r0 [E _]].
    apply (ppi_spec_table_inv _ _ _ _ _ E T).
  - intros H; injection H as <- _. apply table_inv_update. exact T.
  - destruct (update_client s id) as [[s1 r]|e|site] eqn:E; cbn [bind]; intros H; try discriminate.
    injection H as <- _. cbn [fst]. apply update_client_spec in E. destruct E.
    + exact T.
    + apply (table_inv_slot_clear _ _ _ _ T H).
    + apply (table_inv_slot_update _ _ _ _ _ T H); reflexivity.
  - destruct (nserver_disconnect s id) as [[s1 r]|e|site] eqn:E; cbn [bind]; intros H; try discriminate.
    injection H as <- _. cbn [fst]. apply nserver_disconnect_spec in E. destruct E.
    + exact T.
    + apply (table_inv_slot_clear _ _ _ _ T H).
  - destruct (generate_payload_packet s id p) as [s1 r] eqn:E. apply generate_payload_spec in E.
    destruct E.
    + intros H; injection H as <- _. exact T.
    + intros HH; injection HH as <- _. apply (table_inv_slot_update _ _ _ _ _ T H); reflexivity.
  - intros H; injection H as <- _. apply table_inv_set_max. exact T.
Qed.

Theorem table_inv_run ops : forall s s' outs, table_inv s -> nsrun s ops = Ok (s', outs) -> table_inv s'.
Proof.
  induction ops as [|o ops IH]; intros s s' outs T; cbn [nsrun].
  - intros H; injection H as <- _. exact T.
  - destruct (nsstep s o) as [[s1 out]|e|site] eqn:E; cbn [bind]; try discriminate.
    destruct (nsrun s1 ops) as [[s2 outs2]|e|site] eqn:E2; cbn [bind]; try discriminate.
    intros H; injection H as <- _.
    apply (IH _ _ _ (table_inv_step _ _ _ _ T E) E2).
Qed.

(* ------------------------------------------------------------------ *)
(* lookups return THE entry                                            *)
(* ------------------------------------------------------------------ *)
Theorem lookup_unique s k c :
  table_inv s -> nth_opt (ns_clients s) k = Some (Some c) ->
  find_by_id s (nc_id c) = Some (N.of_nat k, c) /\ find_by_addr s (nc_addr c) = Some (N.of_nat k, c).
Proof.
  intros T H. apply table_inv_tbl in T. destruct T as (H1 & H2 & _).
  apply nth_opt_split in H. destruct H as [l1 [l2 [E L]]].
  unfold connected in H1, H2. rewrite E, connected_split, map_app in H1, H2. cbn [map] in H1, H2.
  apply NoDup_remove_2 in H1. apply NoDup_remove_2 in H2.
  assert (K : 0 + len l1 = N.of_nat k) by (unfold len; lia).
  unfold find_by_id, find_by_addr. rewrite E, <- K. split; apply find_slot_by_mid.
  - apply N.eqb_refl.
  - intros c' Hc. apply N.eqb_neq. intros Heq. apply H1. apply in_or_app. left.
    rewrite <- Heq. apply in_map. exact Hc.
  - apply addr_eqb_refl.
  - intros c' Hc. apply addr_eqb_neq. intros Heq. apply H2. apply in_or_app. left.
    rewrite <- Heq. apply in_map. exact Hc.
Qed.

Lemma lookup_nth f s slot c :
  find_slot_by f (ns_clients s) 0 = Some (slot, c) ->
  nth_opt (ns_clients s) (N.to_nat slot) = Some (Some c) /\ f c = true.
Proof.
  intros H. destruct (lookup_split _ _ _ _ H) as [l1 [l2 [E1 [E2 [E3 _]]]]].
  split; [|exact E3]. rewrite E1, E2. apply nth_opt_app_mid.
Qed.

(* the two indexes agree *)
Corollary find_by_id_addr s id slot c :
  table_inv s -> find_by_id s id = Some (slot, c) ->
  nc_id c = id /\ find_by_addr s (nc_addr c) = Some (slot, c).
Proof.
  intros T H. destruct (lookup_nth _ _ _ _ H) as [Hn Hf]. apply N.eqb_eq in Hf.
  split; [exact Hf|]. destruct (lookup_unique _ _ _ T Hn) as [_ K]. rewrite K, N2Nat.id. reflexivity.
Qed.

Corollary find_by_addr_id s a slot c :
  table_inv s -> find_by_addr s a = Some (slot, c) ->
  nc_addr c = a /\ find_by_id s (nc_id c) = Some (slot, c).
Proof.
  intros T H. destruct (lookup_nth _ _ _ _ H) as [Hn Hf]. apply addr_eqb_eq in Hf.
  split; [exact Hf|]. destruct (lookup_unique _ _ _ T Hn) as [K _]. rewrite K, N2Nat.id. reflexivity.
Qed.

Lemma find_by_id_after_clear s id slot c :
  table_inv s -> find_by_id s id = Some (slot, c) -> find_by_id (set_slot s slot None) id = None.
Proof.
  intros T H. apply table_inv_tbl in T. destruct T as (H1 & _).
  destruct (lookup_split _ _ _ _ H) as [l1 [l2 [E1 [E2 [E3 [E4 E5]]]]]]. apply N.eqb_eq in E3.
  unfold connected in H1. rewrite E1, connected_split, map_app in H1. cbn [map] in H1.
  apply NoDup_remove_2 in H1.
  apply find_by_id_none_iff. unfold connected. rewrite E5, connected_split, map_app, <- E3. exact H1.
Qed.

Lemma ids_slot_update f s slot c c' :
  find_slot_by f (ns_clients s) 0 = Some (slot, c) -> nc_id c' = nc_id c ->
  map nc_id (connected (set_slot s slot (Some c'))) = map nc_id (connected s).
Proof.
  intros H Ei. destruct (lookup_split _ _ _ _ H) as [l1 [l2 [E1 [E2 [E3 [E4 E5]]]]]].
  unfold connected. rewrite E5, E1, !connected_split, !map_app. cbn [map]. rewrite Ei. reflexivity.
Qed.

Lemma find_by_id_slot_update s id slot c c' :
  find_by_id s id = Some (slot, c) -> nc_id c' = nc_id c ->
  find_by_id (set_slot s slot (Some c')) id = Some (slot, c').
Proof.
  intros H Ei. destruct (lookup_split _ _ _ _ H) as [l1 [l2 [E1 [E2 [E3 [E4 E5]]]]]].
  unfold find_by_id. rewrite E5.
  replace slot with (0 + len l1) by (unfold len; lia).
  apply find_slot_by_mid; [rewrite Ei; exact E3 | exact E4].
Qed.

Lemma find_by_id_after_insert s id idx c :
  find_by_id s id = None -> first_free (ns_clients s) 0 = Some idx -> nc_id c = id ->
  find_by_id (set_slot s idx (Some c)) id = Some (idx, c).
Proof.
  intros H Hf Ei. destruct (free_split _ _ Hf) as [l1 [l2 [E1 [E2 E5]]]].
  unfold find_by_id in *. rewrite E5.
  replace idx with (0 + len l1) by (unfold len; lia).
  rewrite find_slot_by_none in H. rewrite E1, connected_split in H.
  apply find_slot_by_mid; [rewrite Ei; apply N.eqb_refl |].
  intros c' Hc. apply H. apply in_or_app. left. exact Hc.
Qed.

(* ------------------------------------------------------------------ *)
(* D. events                                                           *)
(* ------------------------------------------------------------------ *)
Lemma hr_spec_clients s a ex xn data s' r : hr_spec s a ex xn data s' r -> ns_clients s' = ns_clients s.
Proof. intros H. destruct H; subst; reflexivity. Qed.

Lemma hr_spec_result s a ex xn data s' r :
  hr_spec s a ex xn data s' r -> res_of r = SRNone \/ exists out, r = Ok (SRPacketToSend a out).
Proof. intros H. destruct H as [es r [->|[e ->]]| |]; eauto. Qed.

Definition event_ok (s s' : nserver) (r : sresult) : Prop :=
  match r with
  | SRConnected id a _ _ =>
      find_by_id s id = None /\ find_by_addr s a = None /\
      (exists slot c, find_by_id s' id = Some (slot, c) /\ nc_addr c = a)
  | SRDisconnected id a _ =>
      (exists slot c, find_by_id s id = Some (slot, c) /\ nc_addr c = a) /\ find_by_id s' id = None
  | _ => map nc_id (connected s') = map nc_id (connected s)
  end.

Lemma ppi_spec_events s a buf s' r0 :
  table_inv s -> ppi_spec s a buf s' r0 -> event_ok s s' (res_of r0).
Proof.
  intros T H. destruct H.
  - reflexivity.
  - assert (K : map nc_id (connected (set_slot s slot (Some c2))) = map nc_id (connected s)).
    { apply (ids_slot_update _ _ _ _ _ H). destruct H1 as [-> | ->]; reflexivity. }
    destruct H2 as [[e ->]|[->|[p ->]]]; exact K.
  - cbn [res_of event_ok]. destruct (find_by_addr_id _ _ _ _ T H) as [Ha Hi]. split.
    + exists slot, c. auto.
    + apply (find_by_id_after_clear _ _ _ _ T Hi).
  - destruct H2 as [->|[e ->]]; reflexivity.
  - pose proof (hr_spec_clients _ _ _ _ _ _ _ H3) as Ec. nsimpl_in Ec.
    assert (K : map nc_id (connected s') = map nc_id (connected s)) by (unfold connected; rewrite Ec; reflexivity).
    destruct (hr_spec_result _ _ _ _ _ _ _ H3) as [->|[out ->]]; exact K.
  - reflexivity.
  - subst s'. reflexivity.
  - subst s'. cbn [res_of event_ok]. split; [exact H3|]. split; [exact H|].
    eexists _, _. split.
    + apply (find_by_id_after_insert (set_pending s _) (nc_id pc) idx); [exact H3 | exact H4 | reflexivity].
    + cbn [promote nc_addr nc_with_replay]. apply table_inv_tbl in T.
      apply pend_find_In in H0. apply (tbl_pending_wf _ _ _ _ T H0).
  - pose proof (hr_spec_clients _ _ _ _ _ _ _ H2) as Ec.
    assert (K : map nc_id (connected s') = map nc_id (connected s)) by (unfold connected; rewrite Ec; reflexivity).
    destruct (hr_spec_result _ _ _ _ _ _ _ H2) as [->|[out ->]]; exact K.
Qed.

Theorem events_matched s o s' r :
  table_inv s -> nsstep s o = Ok (s', NOResult r) ->
  match r with
  | SRConnected id a _ _ =>
      find_by_id s id = None /\ find_by_addr s a = None /\
      (exists slot c, find_by_id s' id = Some (slot, c) /\ nc_addr c = a)
  | SRDisconnected id a _ =>
      (exists slot c, find_by_id s id = Some (slot, c) /\ nc_addr c = a) /\ find_by_id s' id = None
  | _ => map nc_id (connected s') = map nc_id (connected s)
  end.
Proof.
  intros T. change (nsstep s o = Ok (s', NOResult r) -> event_ok s s' r).
  destruct o as [a buf|dt|id|id|id p|m]; cbn [nsstep].
  - destruct (process_packet s a buf) as [[s1 r1]|e|site] eqn:E; cbn [bind]; intros H; try discriminate.
    injection H as <- <-. cbn [fst snd]. apply process_packet_inv in E. destruct E as [r0 [E ->]].
    apply (ppi_spec_events _ _ _ _ _ T E).
  - discriminate.
  - destruct (update_client s id) as [[s1 r1]|e|site] eqn:E; cbn [bind]; intros H; try discriminate.
    injection H as <- <-. cbn [fst snd]. apply update_client_spec in E. destruct E.
    + reflexivity.
    + cbn [event_ok]. split; [eauto | apply (find_by_id_after_clear _ _ _ _ T H)].
    + cbn [event_ok]. apply (ids_slot_update _ _ _ _ _ H). reflexivity.
  - destruct (nserver_disconnect s id) as [[s1 r1]|e|site] eqn:E; cbn [bind]; intros H; try discriminate.
    injection H as <- <-. cbn [fst snd]. apply nserver_disconnect_spec in E. destruct E.
    + reflexivity.
    + cbn [event_ok]. split; [eauto | apply (find_by_id_after_clear _ _ _ _ T H)].
  - destruct (generate_payload_packet s id p) as [s1 r1]. destruct r1; discriminate.
  - discriminate.
Qed.

(* ------------------------------------------------------------------ *)
(* C. the slot bound                                                   *)
(* ------------------------------------------------------------------ *)
Lemma len_set_slot s i x : len (ns_clients (set_slot s i x)) = len (ns_clients s).
Proof. unfold set_slot. nsimpl. apply len_upd. Qed.

Lemma hr_spec_max s a ex xn data s' r : hr_spec s a ex xn data s' r -> ns_max s' = ns_max s.
Proof. intros H. destruct H; subst; reflexivity. Qed.

Lemma ppi_spec_shape s a buf s' r :
  ppi_spec s a buf s' r -> len (ns_clients s') = len (ns_clients s) /\ ns_max s' = ns_max s.
Proof.
  intros H. destruct H; subst; rewrite ?len_set_slot; try (split; reflexivity).
  - rewrite (hr_spec_clients _ _ _ _ _ _ _ H3), (hr_spec_max _ _ _ _ _ _ _ H3). split; reflexivity.
  - rewrite (hr_spec_clients _ _ _ _ _ _ _ H2), (hr_spec_max _ _ _ _ _ _ _ H2). split; reflexivity.
Qed.

Lemma set_max_clients_shape s m :
  ns_max s <= NC_MAX_CLIENTS -> len (ns_clients s) = ns_max s -> ns_max s <= m ->
  len (ns_clients (set_max_clients s m)) = ns_max (set_max_clients s m).
Proof.
  intros Hc Hl Hm. unfold set_max_clients.
  destruct (NC_MAX_CLIENTS <? m) eqn:E1;
  match goal with |- context [len (ns_clients s) <? ?k] => destruct (len (ns_clients s) <? k) eqn:E2 end; nsimpl;
  rewrite ?len_app, ?len_repeatN; lia.
Qed.

Lemma set_max_clients_le s m : ns_max (set_max_clients s m) <= NC_MAX_CLIENTS.
Proof. unfold set_max_clients. destruct (NC_MAX_CLIENTS <? m) eqn:E1; nsimpl; lia. Qed.

(* extra hypothesis: ns_max s <= NC_MAX_CLIENTS (true of every state built by nserver_new); without it
   NSSetMax clamps the limit below the number of slots - see slots_bound_needs_cap below *)
Theorem slots_bound s o s' out :
  ns_max s <= NC_MAX_CLIENTS ->
  len (ns_clients s) = ns_max s -> nsstep s o = Ok (s', out) ->
  (forall m, o = NSSetMax m -> ns_max s <= m) ->
  len (ns_clients s') = ns_max s' /\ ns_max s' <= NC_MAX_CLIENTS.
Proof.
  intros Hc Hl. destruct o as [a buf|dt|id|id|id p|m]; cbn [nsstep].
  - destruct (process_packet s a buf) as [[s1 r1]|e|site] eqn:E; cbn [bind]; intros H _; try discriminate.
    injection H as <- _. cbn [fst]. apply process_packet_inv in E. destruct E as [r0 [E _]].
    destruct (ppi_spec_shape _ _ _ _ _ E) as [-> ->]. auto.
  - intros H _; injection H as <- _. unfold nserver_update. nsimpl. auto.
  - destruct (update_client s id) as [[s1 r1]|e|site] eqn:E; cbn [bind]; intros H _; try discriminate.
    injection H as <- _. cbn [fst]. apply update_client_spec in E.
    destruct E; rewrite ?len_set_slot; auto.
  - destruct (nserver_disconnect s id) as [[s1 r1]|e|site] eqn:E; cbn [bind]; intros H _; try discriminate.
    injection H as <- _. cbn [fst]. apply nserver_disconnect_spec in E.
    destruct E; rewrite ?len_set_slot; auto.
  - destruct (generate_payload_packet s id p) as [s1 r1] eqn:E. apply generate_payload_spec in E.
    destruct E; intros HH _; injection HH as <- _; rewrite ?len_set_slot; auto.
  - intros H Hm; injection H as <- _. split; [|apply set_max_clients_le].
    apply set_max_clients_shape; auto.
Qed.

Theorem connected_le_slots s : connected_count s <= len (ns_clients s).
Proof. apply count_some_le. Qed.

Corollary connected_le_max s : len (ns_clients s) = ns_max s -> connected_count s <= ns_max s.
Proof. intros <-. apply connected_le_slots. Qed.

Lemma slots_init now max protocol addrs key chal s :
  nserver_new now max protocol addrs key chal = Ok s ->
  len (ns_clients s) = ns_max s /\ ns_max s <= NC_MAX_CLIENTS.
Proof.
  unfold nserver_new. destruct (NC_MAX_CLIENTS <? max) eqn:E; [discriminate|].
  intros H; injection H as <-. nsimpl. rewrite len_repeatN. lia.
Qed.

(* the limit is never lowered along a list of calls *)
Fixpoint never_lowered (cur : N) (ops : list nsop) : Prop :=
  match ops with
  | [] => True
  | NSSetMax m :: t => cur <= m /\ never_lowered (if NC_MAX_CLIENTS <? m then NC_MAX_CLIENTS else m) t
  | _ :: t => never_lowered cur t
  end.

Lemma nsstep_max s o s' out :
  nsstep s o = Ok (s', out) ->
  ns_max s' = match o with NSSetMax m => if NC_MAX_CLIENTS <? m then NC_MAX_CLIENTS else m | _ => ns_max s end.
Proof.
  destruct o as [a buf|dt|id|id|id p|m]; cbn [nsstep].
  - destruct (process_packet s a buf) as [[s1 r1]|e|site] eqn:E; cbn [bind]; intros H; try discriminate.
    injection H as <- _. cbn [fst]. apply process_packet_inv in E. destruct E as [r0 [E _]].
    apply (ppi_spec_shape _ _ _ _ _ E).
  - intros H; injection H as <- _. reflexivity.
  - destruct (update_client s id) as [[s1 r1]|e|site] eqn:E; cbn [bind]; intros H; try discriminate.
    injection H as <- _. cbn [fst]. apply update_client_spec in E. destruct E; reflexivity.
  - destruct (nserver_disconnect s id) as [[s1 r1]|e|site] eqn:E; cbn [bind]; intros H; try discriminate.
    injection H as <- _. cbn [fst]. apply nserver_disconnect_spec in E. destruct E; reflexivity.
  - destruct (generate_payload_packet s id p) as [s1 r1] eqn:E. apply generate_payload_spec in E.
    destruct E; intros HH; injection HH as <- _; reflexivity.
  - intros H; injection H as <- _. unfold set_max_clients.
    destruct (len (ns_clients s) <? _); reflexivity.
Qed.

Theorem connected_bound_run ops : forall s s' outs,
  ns_max s <= NC_MAX_CLIENTS -> len (ns_clients s) = ns_max s ->
  never_lowered (ns_max s) ops -> nsrun s ops = Ok (s', outs) ->
  len (ns_clients s') = ns_max s' /\ connected_count s' <= ns_max s'.
Proof.
  induction ops as [|o ops IH]; intros s s' outs Hc Hl Hn; cbn [nsrun].
  - intros H; injection H as <- _. split; [exact Hl | apply connected_le_max; exact Hl].
  - destruct (nsstep s o) as [[s1 out]|e|site] eqn:E; cbn [bind]; try discriminate.
    destruct (nsrun s1 ops) as [[s2 outs2]|e|site] eqn:E2; cbn [bind]; try discriminate.
    intros H; injection H as <- _.
    assert (Hs : forall m, o = NSSetMax m -> ns_max s <= m).
    { intros m ->. cbn [never_lowered] in Hn. tauto. }
    destruct (slots_bound _ _ _ _ Hc Hl E Hs) as [Hl1 Hc1].
    apply (IH s1 s2 outs2 Hc1 Hl1); [|exact E2].
    rewrite (nsstep_max _ _ _ _ E). destruct o; cbn [never_lowered] in Hn; tauto.
Qed.

(* ------------------------------------------------------------------ *)
(* E. a full server refuses                                            *)
(* ------------------------------------------------------------------ *)
Lemma hr_spec_not_connected s a ex xn data s' r id a' u p :
  hr_spec s a ex xn data s' r -> res_of r <> SRConnected id a' u p.
Proof. intros H. destruct (hr_spec_result _ _ _ _ _ _ _ H) as [->|[out ->]]; discriminate. Qed.

Theorem full_server_refuses s a buf s' r :
  table_inv s -> ns_max s <= connected_count s -> len (ns_clients s) = ns_max s ->
  process_packet s a buf = Ok (s', r) ->
  (forall id a' u p, r <> SRConnected id a' u p) /\ (find_by_addr s a = None -> ns_clients s' = ns_clients s).
Proof.
  intros T Hf Hl H. apply process_packet_inv in H. destruct H as [r0 [H ->]].
  assert (Full : first_free (ns_clients s) 0 = None).
  { apply first_free_full. pose proof (connected_le_slots s). unfold connected_count in *. lia. }
  destruct H.
  - split; [discriminate | reflexivity].
  - split; [|congruence]. destruct H2 as [[e ->]|[->|[p ->]]]; discriminate.
  - split; [discriminate | congruence].
  - split; [|reflexivity]. destruct H2 as [->|[e ->]]; discriminate.
  - split; [intros; apply (hr_spec_not_connected _ _ _ _ _ _ _ _ _ _ _ H3)|].
    intros _. apply (hr_spec_clients _ _ _ _ _ _ _ H3).
  - split; [discriminate | reflexivity].
  - subst s'. split; [discriminate | reflexivity].
  - congruence.
  - split; [intros; apply (hr_spec_not_connected _ _ _ _ _ _ _ _ _ _ _ H2)|].
    intros _. apply (hr_spec_clients _ _ _ _ _ _ _ H2).
Qed.

(* ------------------------------------------------------------------ *)
(* F. no amplification                                                 *)
(* ------------------------------------------------------------------ *)
Lemma hr_spec_out_len s a ex xn data s' a' out :
  hr_spec s a ex xn data s' (Ok (SRPacketToSend a' out)) ->
  a' = a /\ len out <= 1 + 8 + (8 + NC_CHALLENGE_BYTES) + NC_MAC_BYTES.
Proof.
  intros H. inversion H; subst.
  - destruct H0 as [H0|[e H0]]; discriminate.
  - split; [reflexivity|].
    match goal with E : encode _ PDenied _ _ = Ok _ |- _ => apply encode_sealed_len_le in E; [|cbn [packet_id]; lia] end.
    cbn [packet_body] in *. rewrite len_nil in *. lia.
  - split; [reflexivity|].
    match goal with E : encode _ (generate_challenge _ _ _ _) _ _ = Ok _ |- _ =>
      apply encode_sealed_len_le in E; [|rewrite generate_challenge_id; lia] end.
    match goal with E : private_decode _ _ _ _ _ = Ok _ |- _ => apply private_decode_user_len in E end.
    rewrite challenge_body_len in * by assumption. lia.
Qed.

Lemma reply_lt_request : 1 + 8 + (8 + NC_CHALLENGE_BYTES) + NC_MAC_BYTES < REQUEST_MIN.
Proof. unfold REQUEST_MIN. rewrite request_min_val, challenge_val, mac_val. lia. Qed.

Lemma keepalive_lt_response : 1 + 8 + 8 + NC_MAC_BYTES < RESPONSE_MIN.
Proof. unfold RESPONSE_MIN. rewrite challenge_val, mac_val. lia. Qed.

Theorem no_amplification s a buf s' r :
  table_inv s -> find_by_addr s a = None -> process_packet s a buf = Ok (s', r) ->
  r = SRNone \/ (exists p, r = SRPacketToSend a p /\ len p < len buf) \/
  (exists id u p, r = SRConnected id a u p /\ len p < len buf).
Proof.
  intros T Ea H. apply process_packet_inv in H. destruct H as [r0 [H ->]].
  assert (HR : forall s0 ex xn data s1 r1, REQUEST_MIN <= len buf -> hr_spec s0 a ex xn data s1 r1 ->
     res_of r1 = SRNone \/ (exists p, res_of r1 = SRPacketToSend a p /\ len p < len buf) \/
     (exists id u p, res_of r1 = SRConnected id a u p /\ len p < len buf)).
  { intros s0 ex xn data s1 r1 Hl Hh. destruct (hr_spec_result _ _ _ _ _ _ _ Hh) as [->|[out ->]]; [left; reflexivity|].
    right; left. exists out. split; [reflexivity|].
    destruct (hr_spec_out_len _ _ _ _ _ _ _ _ Hh) as [_ Ho]. pose proof reply_lt_request. lia. }
  destruct H.
  - left; reflexivity.
  - congruence.
  - congruence.
  - left. destruct H2 as [->|[e ->]]; reflexivity.
  - apply (HR _ _ _ _ _ _ H2 H3).
  - left; reflexivity.
  - right; left. exists out. split; [reflexivity|].
    apply encode_sealed_len_le in H4; [|cbn [packet_id]; lia].
    cbn [packet_body] in H4. rewrite len_nil in H4. pose proof keepalive_lt_response. lia.
  - right; right. exists (nc_id pc), cuser, out. split; [reflexivity|].
    apply encode_sealed_len_le in H5; [|cbn [packet_id]; lia].
    cbn [packet_body] in H5. unfold le32 in H5. rewrite len_app, !len_le_bytes in H5.
    pose proof keepalive_lt_response. lia.
  - apply (HR _ _ _ _ _ _ H1 H2).
Qed.

(* slots_bound really needs the cap: a (not reachable) state whose limit exceeds NC_MAX_CLIENTS *)
Example slots_bound_needs_cap :
  exists s s' out, len (ns_clients s) = ns_max s /\ nsstep s (NSSetMax (ns_max s)) = Ok (s', out) /\
                   len (ns_clients s') <> ns_max s'.
Proof.
  set (s := {| ns_clients := repeatN None 1025; ns_pending := []; ns_entries := []; ns_protocol := 0;
               ns_connect_key := []; ns_max := 1025; ns_chal_seq := 0; ns_chal_key := []; ns_addrs := [];
               ns_now := 0; ns_global_seq := NC_GLOBAL_SEQUENCE_INIT; ns_secure := false |}).
  exists s, (set_max_clients s 1025), NONothing. split; [|split].
  - vm_compute. reflexivity.
  - reflexivity.
  - vm_compute. discriminate.
Qed.

(* ------------------------------------------------------------------ *)
(* G. time-outs on the server side                                     *)
(* ------------------------------------------------------------------ *)
Theorem server_times_out_silent s id slot c :
  table_inv s ->
  find_by_id s id = Some (slot, c) -> (0 < nc_timeout c)%Z ->
  nc_last_recv c + Z.to_N (nc_timeout c) * NS_PER_SEC < ns_now s ->
  exists s' p, update_client s id = Ok (s', SRDisconnected id (nc_addr c) p) /\ find_by_id s' id = None.
Proof.
  intros T Hf Ht Hl. unfold update_client. rewrite Hf.
  assert (E1 : (0 <? nc_timeout c)%Z = true) by lia.
  assert (E2 : (nc_last_recv c + Z.to_N (nc_timeout c) * NS_PER_SEC <? ns_now s) = true) by lia.
  rewrite E1, E2. cbn [andb].
  pose proof (find_by_id_after_clear _ _ _ _ T Hf) as K.
  destruct (encode OUT_CAP PDisconnect _ _) as [out|e|site] eqn:Eo; [eauto | eauto |].
  exfalso. apply (encode_no_panic _ _ _ _ _ Eo).
Qed.

(* the disconnect datagram is in fact always produced *)
Lemma disconnect_encodes proto q key : exists out, encode OUT_CAP PDisconnect proto (Some (q, key)) = Ok out.
Proof. apply encode_small_ok; [cbn [packet_id]; lia | cbn [packet_body]; rewrite len_nil; lia]. Qed.

Theorem server_keeps_live s id slot c s' r :
  find_by_id s id = Some (slot, c) ->
  ns_now s <= nc_last_recv c + Z.to_N (nc_timeout c) * NS_PER_SEC \/ (nc_timeout c <= 0)%Z ->
  update_client s id = Ok (s', r) ->
  (forall a p, r <> SRDisconnected id a p) /\ exists c', find_by_id s' id = Some (slot, c').
Proof.
  intros Hf Hl H. apply update_client_spec in H. destruct H.
  - split; [discriminate | eauto].
  - rewrite Hf in H. injection H as <- <-. unfold timed_out in H0. lia.
  - rewrite Hf in H. injection H as <- <-. split; [discriminate|].
    eexists. apply (find_by_id_slot_update _ _ _ _ _ Hf). reflexivity.
Qed.

(* nserver_update: the clock advances, the pending entries that expired before the new time (in whole
   seconds) are dropped, in place; nothing else moves *)
Theorem pending_expires s dt :
  let s' := nserver_update s dt in
  ns_now s' = ns_now s + dt /\
  ns_pending s' = filter (fun ac => negb (nc_expire (snd ac) <? as_secs (ns_now s'))) (ns_pending s) /\
  (forall a c, In (a, c) (ns_pending s') <-> In (a, c) (ns_pending s) /\ ~ nc_expire c < as_secs (ns_now s')) /\
  set_pending (set_now s' (ns_now s)) (ns_pending s) = s.
Proof.
  cbv zeta. unfold nserver_update. nsimpl. split; [reflexivity|]. split; [reflexivity|]. split.
  - intros a c. rewrite filter_In. cbn [snd]. split; intros [H1 H2]; (split; [exact H1|]); lia.
  - destruct s; reflexivity.
Qed.

(* ------------------------------------------------------------------ *)
(* I. non-vacuity                                                      *)
(* ------------------------------------------------------------------ *)
Definition ex_key : list N := repeatN 7 32.
Definition ex_chal_key : list N := repeatN 9 32.
Definition ex_addr : addr := AddrV4 [127; 0; 0; 1] 5000.
Definition ex_peer : addr := AddrV4 [10; 0; 0; 1] 4000.

Example server_example :
  exists s, nserver_new 0 2 42 [ex_addr] (Some ex_key) ex_chal_key = Ok s /\
            table_inv s /\ ns_secure s = true /\ len (ns_connect_key s) = NC_KEY_BYTES /\
            len (ns_clients s) = 2 /\ connected_count s = 0 /\
            process_packet s ex_peer (zeros 18) = Ok (s, SRNone).
Proof.
  destruct (nserver_new 0 2 42 [ex_addr] (Some ex_key) ex_chal_key) as [s|e|site] eqn:E;
    [|vm_compute in E; discriminate | vm_compute in E; discriminate].
  exists s. split; [reflexivity|]. split.
  { assert (Hm : 2 <= NC_MAX_CLIENTS) by (unfold NC_MAX_CLIENTS; lia). apply (table_inv_init _ _ _ _ _ _ _ Hm E). }
  vm_compute in E. injection E as <-. repeat split; vm_compute; reflexivity.
Qed.

(* ------------------------------------------------------------------ *)
(* H. sequence discipline                                              *)
(* ------------------------------------------------------------------ *)
Lemma hr_spec_global s a ex xn data s' r :
  hr_spec s a ex xn data s' r ->
  (ns_global_seq s' = ns_global_seq s /\ forall a' d, r <> Ok (SRPacketToSend a' d)) \/
  (ns_global_seq s' = ns_global_seq s + 1 /\ exists d, r = Ok (SRPacketToSend a d)).
Proof.
  intros H. destruct H as [es r [->|[e ->]]| |]; subst; nsimpl.
  - left. split; [reflexivity | discriminate].
  - left. split; [reflexivity | discriminate].
  - right. eauto.
  - right. eauto.
Qed.

Lemma ppi_spec_global s a buf s' r :
  ppi_spec s a buf s' r -> ns_global_seq s' = ns_global_seq s \/ ns_global_seq s' = ns_global_seq s + 1.
Proof.
  intros H. destruct H; subst; nsimpl; auto.
  - destruct (hr_spec_global _ _ _ _ _ _ _ H3) as [[E _]|[E _]]; nsimpl_in E; auto.
  - destruct (hr_spec_global _ _ _ _ _ _ _ H2) as [[E _]|[E _]]; auto.
Qed.

Theorem global_seq_monotone s o s' out :
  nsstep s o = Ok (s', out) ->
  ns_global_seq s' = ns_global_seq s \/ ns_global_seq s' = ns_global_seq s + 1.
Proof.
  destruct o as [a buf|dt|id|id|id p|m]; cbn [nsstep].
  - destruct (process_packet s a buf) as [[s1 r1]|e|site] eqn:E; cbn [bind]; intros H; try discriminate.
    injection H as <- _. cbn [fst]. apply process_packet_inv in E. destruct E as [r0 [E _]].
    apply (ppi_spec_global _ _ _ _ _ E).
  - intros H; injection H as <- _. left; reflexivity.
  - destruct (update_client s id) as [[s1 r1]|e|site] eqn:E; cbn [bind]; intros H; try discriminate.
    injection H as <- _. cbn [fst]. apply update_client_spec in E. destruct E; left; reflexivity.
  - destruct (nserver_disconnect s id) as [[s1 r1]|e|site] eqn:E; cbn [bind]; intros H; try discriminate.
    injection H as <- _. cbn [fst]. apply nserver_disconnect_spec in E. destruct E; left; reflexivity.
  - destruct (generate_payload_packet s id p) as [s1 r1] eqn:E. apply generate_payload_spec in E.
    destruct E; intros HH; injection HH as <- _; left; reflexivity.
  - intros H; injection H as <- _. left. unfold set_max_clients.
    destruct (len (ns_clients s) <? _); reflexivity.
Qed.

Theorem global_seq_init now max protocol addrs key chal s :
  nserver_new now max protocol addrs key chal = Ok s -> ns_global_seq s = NC_GLOBAL_SEQUENCE_INIT.
Proof.
  unfold nserver_new. destruct (NC_MAX_CLIENTS <? max); [discriminate|].
  intros H; injection H as <-. reflexivity.
Qed.

Theorem global_seq_ge_init_step s o s' out :
  NC_GLOBAL_SEQUENCE_INIT <= ns_global_seq s -> nsstep s o = Ok (s', out) ->
  NC_GLOBAL_SEQUENCE_INIT <= ns_global_seq s'.
Proof. intros H E. destruct (global_seq_monotone _ _ _ _ E); lia. Qed.

Theorem global_seq_ge_init_run ops : forall s s' outs,
  NC_GLOBAL_SEQUENCE_INIT <= ns_global_seq s -> nsrun s ops = Ok (s', outs) ->
  ns_global_seq s <= ns_global_seq s' /\ NC_GLOBAL_SEQUENCE_INIT <= ns_global_seq s'.
Proof.
  induction ops as [|o ops IH]; intros s s' outs Hg; cbn [nsrun].
  - intros H; injection H as <- _. lia.
  - destruct (nsstep s o) as [[s1 out]|e|site] eqn:E; cbn [bind]; try discriminate.
    destruct (nsrun s1 ops) as [[s2 outs2]|e|site] eqn:E2; cbn [bind]; try discriminate.
    intros H; injection H as <- _.
    pose proof (global_seq_ge_init_step _ _ _ _ Hg E) as H1.
    destruct (IH _ _ _ H1 E2) as [H2 H3]. destruct (global_seq_monotone _ _ _ _ E); lia.
Qed.

(* the datagram an API call hands to the transport, with its destination *)
Definition out_dgram (out : nsout) : option (addr * list N) :=
  match out with
  | NOResult (SRPacketToSend a d) => Some (a, d)
  | NOResult (SRConnected _ a _ d) => Some (a, d)
  | NOResult (SRDisconnected _ a (Some d)) => Some (a, d)
  | NOPayloadPacket (Ok (a, d)) => Some (a, d)
  | _ => None
  end.

(* how the datagram d sent to address a by the step s -> s' was sealed:
   - Seal_global: for an address that is not connected (challenge, denied): the global counter, which is
     then incremented;
   - Seal_conn: for a connected client: its own counter; afterwards the counter is incremented (nc_sent)
     or the connection is gone;
   - Seal_promoted: the keep-alive inside SRConnected: the counter of the pending entry, which moves
     into the slot incremented, the pending entry is gone. *)
Inductive seals (s s' : nserver) (a : addr) (d : list N) : Prop :=
| Seal_global pkt key :
    packet_id pkt <> 0 -> find_by_addr s a = None ->
    encode OUT_CAP pkt (ns_protocol s) (Some (ns_global_seq s, key)) = Ok d ->
    ns_global_seq s' = ns_global_seq s + 1 ->
    seals s s' a d
| Seal_conn pkt id slot c :
    packet_id pkt <> 0 -> find_by_id s id = Some (slot, c) -> nc_addr c = a ->
    encode OUT_CAP pkt (ns_protocol s) (Some (nc_seq c, nc_send_key c)) = Ok d ->
    ns_global_seq s' = ns_global_seq s ->
    (find_by_id s' id = Some (slot, nc_sent c (ns_now s)) \/ find_by_id s' id = None) ->
    seals s s' a d
| Seal_promoted pc slot c2 :
    pend_find a (ns_pending s) = Some pc -> find_by_id s (nc_id pc) = None ->
    encode OUT_CAP (PKeepAlive slot (ns_max s)) (ns_protocol s) (Some (nc_seq pc, nc_send_key pc)) = Ok d ->
    ns_global_seq s' = ns_global_seq s ->
    find_by_id s' (nc_id pc) = Some (slot, c2) ->
    nc_seq c2 = nc_seq pc + 1 -> nc_send_key c2 = nc_send_key pc -> nc_addr c2 = a ->
    pend_find a (ns_pending s') = None ->
    seals s s' a d.

Lemma hr_spec_seal s a ex xn data s' a' d :
  hr_spec s a ex xn data s' (Ok (SRPacketToSend a' d)) ->
  a' = a /\ find_by_addr s a = None /\
  exists pkt key, packet_id pkt <> 0 /\
    encode OUT_CAP pkt (ns_protocol s) (Some (ns_global_seq s, key)) = Ok d /\
    ns_global_seq s' = ns_global_seq s + 1.
Proof.
  intros H. inversion H; subst.
  - destruct H0 as [H0|[e H0]]; discriminate.
  - split; [reflexivity|]. split; [assumption|]. exists PDenied, (pt_s2c t).
    split; [cbn [packet_id]; lia|]. split; [assumption | reflexivity].
  - split; [reflexivity|]. split; [assumption|].
    exists (generate_challenge (pt_client_id t) (pt_user t) (ns_chal_seq s + 1) (ns_chal_key s)), (pt_s2c t).
    split; [rewrite generate_challenge_id; lia|]. split; [assumption | reflexivity].
Qed.

Lemma ppi_spec_seals s a buf s' r0 a' d :
  table_inv s -> ppi_spec s a buf s' r0 -> out_dgram (NOResult (res_of r0)) = Some (a', d) -> seals s s' a' d.
Proof.
  intros T H. destruct H; cbn [res_of out_dgram]; try discriminate.
  - destruct H2 as [[e ->]|[->|[p ->]]]; discriminate.
  - destruct H2 as [->|[e ->]]; discriminate.
  - destruct (hr_spec_result _ _ _ _ _ _ _ H3) as [E|[out ->]].
    { rewrite E. discriminate. }
    cbn [res_of out_dgram]. intros HH; injection HH as <- <-.
    destruct (hr_spec_seal _ _ _ _ _ _ _ _ H3) as [_ [Ha [pkt [key [Hp [He Hg]]]]]].
    apply (Seal_global s s' a out pkt key Hp Ha He Hg).
  - intros HH; injection HH as <- <-. subst s'.
    apply (Seal_global s _ a out PDenied (nc_send_key pc)); [cbn [packet_id]; lia | assumption | assumption | reflexivity].
  - intros HH; injection HH as <- <-. subst s'.
    apply (Seal_promoted s _ a out pc idx (promote (nc_with_replay pc rp) cuser (ns_now s))); try assumption; try reflexivity.
    + apply (find_by_id_after_insert (set_pending s _) (nc_id pc) idx); [exact H3 | exact H4 | reflexivity].
    + cbn [promote nc_addr nc_with_replay]. apply table_inv_tbl in T.
      apply pend_find_In in H0. apply (tbl_pending_wf _ _ _ _ T H0).
    + nsimpl. apply pend_find_none. apply pend_remove_keys.
      rewrite (pend_put_found_keys _ _ _ _ H0). apply table_inv_tbl in T. apply T.
  - destruct (hr_spec_result _ _ _ _ _ _ _ H2) as [E|[out ->]].
    { rewrite E. discriminate. }
    cbn [res_of out_dgram]. intros HH; injection HH as <- <-.
    destruct (hr_spec_seal _ _ _ _ _ _ _ _ H2) as [_ [Ha [pkt [key [Hp [He Hg]]]]]].
    apply (Seal_global s s' a out pkt key Hp Ha He Hg).
Qed.

Theorem server_seals_with s o s' out a d :
  table_inv s -> nsstep s o = Ok (s', out) -> out_dgram out = Some (a, d) -> seals s s' a d.
Proof.
  intros T. destruct o as [a0 buf|dt|id|id|id p|m]; cbn [nsstep].
  - destruct (process_packet s a0 buf) as [[s1 r1]|e|site] eqn:E; cbn [bind]; intros H; try discriminate.
    injection H as <- <-. cbn [fst snd]. apply process_packet_inv in E. destruct E as [r0 [E ->]].
    apply (ppi_spec_seals _ _ _ _ _ _ _ T E).
  - intros H; injection H as <- <-. discriminate.
  - destruct (update_client s id) as [[s1 r1]|e|site] eqn:E; cbn [bind]; intros H; try discriminate.
    injection H as <- <-. cbn [fst snd]. apply update_client_spec in E. destruct E; cbn [out_dgram].
    + discriminate.
    + destruct H1 as [->|[out [-> Eo]]]; [discriminate|]. intros HH; injection HH as <- <-.
      apply (Seal_conn s _ (nc_addr c) out PDisconnect id slot c); try assumption; try reflexivity.
      * cbn [packet_id]; lia.
      * right. apply (find_by_id_after_clear _ _ _ _ T H).
    + intros HH; injection HH as <- <-.
      apply (Seal_conn s _ (nc_addr c) out (PKeepAlive slot (ns_max s)) id slot c); try assumption; try reflexivity.
      * cbn [packet_id]; lia.
      * left. apply (find_by_id_slot_update _ _ _ _ _ H). reflexivity.
  - destruct (nserver_disconnect s id) as [[s1 r1]|e|site] eqn:E; cbn [bind]; intros H; try discriminate.
    injection H as <- <-. cbn [fst snd]. apply nserver_disconnect_spec in E. destruct E; cbn [out_dgram].
    + discriminate.
    + destruct H0 as [->|[out [-> Eo]]]; [discriminate|]. intros HH; injection HH as <- <-.
      apply (Seal_conn s _ (nc_addr c) out PDisconnect id slot c); try assumption; try reflexivity.
      * cbn [packet_id]; lia.
      * right. apply (find_by_id_after_clear _ _ _ _ T H).
  - destruct (generate_payload_packet s id p) as [s1 r1] eqn:E. apply generate_payload_spec in E.
    destruct E; intros HH; injection HH as <- <-; cbn [out_dgram]; [discriminate|].
    intros HH; injection HH as <- <-.
    apply (Seal_conn s _ (nc_addr c) out0 (PPayload p) id slot c); try assumption; try reflexivity.
    * cbn [packet_id]; lia.
    * left. apply (find_by_id_slot_update _ _ _ _ _ H). reflexivity.
  - intros H; injection H as <- <-. discriminate.
Qed.

(* ---- what one call does to the slots ---- *)
Inductive slot_change (s s' : nserver) (out : nsout) : Prop :=
| SC_same : ns_clients s' = ns_clients s -> slot_change s s' out
| SC_grow n : ns_clients s' = ns_clients s ++ repeatN None n -> slot_change s s' out
| SC_touch k c c2 :
    nth_opt (ns_clients s) (N.to_nat k) = Some (Some c) ->
    ns_clients s' = upd (ns_clients s) (N.to_nat k) (Some c2) ->
    nc_id c2 = nc_id c -> nc_addr c2 = nc_addr c -> nc_send_key c2 = nc_send_key c -> nc_seq c2 = nc_seq c ->
    (nc_last_recv c2 = nc_last_recv c \/ nc_last_recv c2 = ns_now s) ->
    slot_change s s' out
| SC_sent k c pkt d :
    nth_opt (ns_clients s) (N.to_nat k) = Some (Some c) ->
    ns_clients s' = upd (ns_clients s) (N.to_nat k) (Some (nc_sent c (ns_now s))) ->
    packet_id pkt <> 0 ->
    encode OUT_CAP pkt (ns_protocol s) (Some (nc_seq c, nc_send_key c)) = Ok d ->
    out_dgram out = Some (nc_addr c, d) ->
    slot_change s s' out
| SC_clear k c :
    nth_opt (ns_clients s) (N.to_nat k) = Some (Some c) ->
    ns_clients s' = upd (ns_clients s) (N.to_nat k) None ->
    slot_change s s' out
| SC_fill k c2 :
    nth_opt (ns_clients s) (N.to_nat k) = Some None ->
    ns_clients s' = upd (ns_clients s) (N.to_nat k) (Some c2) ->
    nc_last_recv c2 = ns_now s ->
    slot_change s s' out.

Lemma ppi_spec_slot_change s a buf s' r0 :
  ppi_spec s a buf s' r0 -> slot_change s s' (NOResult (res_of r0)).
Proof.
  intros H. destruct H.
  - apply SC_same. reflexivity.
  - destruct (lookup_nth _ _ _ _ H) as [Hn _].
    apply (SC_touch _ _ _ slot c c2 Hn); [reflexivity | | | | |]; destruct H1 as [-> | ->]; try reflexivity; [left | right]; reflexivity.
  - destruct (lookup_nth _ _ _ _ H) as [Hn _]. apply (SC_clear _ _ _ slot c Hn). reflexivity.
  - apply SC_same. reflexivity.
  - apply SC_same. apply (hr_spec_clients _ _ _ _ _ _ _ H3).
  - apply SC_same. reflexivity.
  - subst s'. apply SC_same. reflexivity.
  - subst s'. destruct (free_split _ _ H4) as [l1 [l2 [E1 [E2 _]]]].
    apply (SC_fill _ _ _ idx (promote (nc_with_replay pc rp) cuser (ns_now s))); [|reflexivity|reflexivity].
    rewrite E1, E2. apply nth_opt_app_mid.
  - apply SC_same. apply (hr_spec_clients _ _ _ _ _ _ _ H2).
Qed.

Lemma nsstep_slot_change s o s' out : nsstep s o = Ok (s', out) -> slot_change s s' out.
Proof.
  destruct o as [a0 buf|dt|id|id|id p|m]; cbn [nsstep].
  - destruct (process_packet s a0 buf) as [[s1 r1]|e|site] eqn:E; cbn [bind]; intros H; try discriminate.
    injection H as <- <-. cbn [fst snd]. apply process_packet_inv in E. destruct E as [r0 [E ->]].
    apply (ppi_spec_slot_change _ _ _ _ _ E).
  - intros H; injection H as <- <-. apply SC_same. reflexivity.
  - destruct (update_client s id) as [[s1 r1]|e|site] eqn:E; cbn [bind]; intros H; try discriminate.
    injection H as <- <-. cbn [fst snd]. apply update_client_spec in E. destruct E.
    + apply SC_same. reflexivity.
    + destruct (lookup_nth _ _ _ _ H) as [Hn _]. apply (SC_clear _ _ _ slot c Hn). reflexivity.
    + destruct (lookup_nth _ _ _ _ H) as [Hn _].
      apply (SC_sent _ _ _ slot c (PKeepAlive slot (ns_max s)) out Hn); [reflexivity | cbn [packet_id]; lia | exact H1 | reflexivity].
  - destruct (nserver_disconnect s id) as [[s1 r1]|e|site] eqn:E; cbn [bind]; intros H; try discriminate.
    injection H as <- <-. cbn [fst snd]. apply nserver_disconnect_spec in E. destruct E.
    + apply SC_same. reflexivity.
    + destruct (lookup_nth _ _ _ _ H) as [Hn _]. apply (SC_clear _ _ _ slot c Hn). reflexivity.
  - destruct (generate_payload_packet s id p) as [s1 r1] eqn:E. apply generate_payload_spec in E.
    destruct E; intros HH; injection HH as <- <-.
    + apply SC_same. reflexivity.
    + destruct (lookup_nth _ _ _ _ H) as [Hn _].
      apply (SC_sent _ _ _ slot c (PPayload p) out0 Hn); [reflexivity | cbn [packet_id]; lia | exact H0 | reflexivity].
  - intros H; injection H as <- <-. destruct (set_max_clients_clients s m) as [n E]. apply (SC_grow _ _ _ n E).
Qed.

(* a connected client's counter and key: every call leaves them alone, or removes the connection, or uses
   the counter for the datagram of that very call and increments it *)
Theorem seq_frame s o s' out id slot c :
  table_inv s -> nsstep s o = Ok (s', out) -> find_by_id s id = Some (slot, c) ->
  find_by_id s' id = None \/
  exists c', find_by_id s' id = Some (slot, c') /\ nc_send_key c' = nc_send_key c /\ nc_addr c' = nc_addr c /\
    (nc_seq c' = nc_seq c \/
     (nc_seq c' = nc_seq c + 1 /\ exists pkt d, packet_id pkt <> 0 /\ out_dgram out = Some (nc_addr c, d) /\
        encode OUT_CAP pkt (ns_protocol s) (Some (nc_seq c, nc_send_key c)) = Ok d)).
Proof.
  intros T E Hf. pose proof (table_inv_step _ _ _ _ T E) as T'.
  destruct (lookup_nth _ _ _ _ Hf) as [Hn Hid]. apply N.eqb_eq in Hid.
  assert (Stay : forall c', nth_opt (ns_clients s') (N.to_nat slot) = Some (Some c') -> nc_id c' = id ->
                            find_by_id s' id = Some (slot, c')).
  { intros c' Hn' Hi'. destruct (lookup_unique _ _ _ T' Hn') as [K _]. rewrite Hi', N2Nat.id in K. exact K. }
  pose proof (nth_opt_some_lt _ _ _ Hn) as Hlt.
  destruct (nsstep_slot_change _ _ _ _ E) as [Hc | n Hc | k c0 c2 Hk Hc Hi Ha Hkey Hseq _ | k c0 pkt d Hk Hc Hp He Ho
                                             | k c0 Hk Hc | k c2 Hk Hc _].
  - right. exists c. rewrite Hc in Stay. auto.
  - right. exists c. rewrite Hc in Stay. split; [apply Stay; [apply nth_opt_app_l; exact Hn | exact Hid]|]. auto.
  - right. destruct (N.eq_dec k slot) as [->|Hne].
    + rewrite Hn in Hk. injection Hk as <-. exists c2. rewrite Hc in Stay.
      split; [apply Stay; [apply nth_opt_upd_same; exact Hlt | congruence]|]. auto.
    + exists c. rewrite Hc in Stay.
      split; [apply Stay; [rewrite nth_opt_upd_other; [exact Hn | lia] | exact Hid]|]. auto.
  - right. destruct (N.eq_dec k slot) as [->|Hne].
    + rewrite Hn in Hk. injection Hk as <-. exists (nc_sent c (ns_now s)). rewrite Hc in Stay.
      split; [apply Stay; [apply nth_opt_upd_same; exact Hlt | exact Hid]|].
      split; [reflexivity|]. split; [reflexivity|]. right. split; [reflexivity|]. eauto.
    + exists c. rewrite Hc in Stay.
      split; [apply Stay; [rewrite nth_opt_upd_other; [exact Hn | lia] | exact Hid]|]. auto.
  - destruct (N.eq_dec k slot) as [->|Hne].
    + left. pose proof (find_by_id_after_clear _ _ _ _ T Hf) as K.
      unfold find_by_id in *. rewrite Hc. exact K.
    + right. exists c. rewrite Hc in Stay.
      split; [apply Stay; [rewrite nth_opt_upd_other; [exact Hn | lia] | exact Hid]|]. auto.
  - right. destruct (N.eq_dec k slot) as [->|Hne]; [congruence|].
    exists c. rewrite Hc in Stay.
    split; [apply Stay; [rewrite nth_opt_upd_other; [exact Hn | lia] | exact Hid]|]. auto.
Qed.

(* pending entries have never sent anything on their own counter: it is 0 until the promotion *)
Definition pending_fresh (s : nserver) : Prop := Forall (fun ac => nc_seq (snd ac) = 0) (ns_pending s).

Lemma hr_spec_pending_fresh s a ex xn data s' r :
  hr_spec s a ex xn data s' r -> pending_fresh s -> pending_fresh s'.
Proof.
  unfold pending_fresh. intros H F. destruct H; subst; nsimpl.
  - exact F.
  - apply Forall_pend_remove. exact F.
  - apply Forall_pend_put; [exact F|]. cbn [snd]. unfold pending_entry.
    destruct (pend_find a (ns_pending s)) as [old|] eqn:E; [|reflexivity].
    apply pend_find_In in E. rewrite Forall_forall in F. apply (F _ E).
Qed.

Lemma ppi_spec_pending_fresh s a buf s' r :
  ppi_spec s a buf s' r -> pending_fresh s -> pending_fresh s'.
Proof.
  intros H F.
  assert (PQ : forall pc rp, pend_find a (ns_pending s) = Some pc ->
     pending_fresh (set_pending s (pend_put a (nc_with_replay pc rp) (ns_pending s)))).
  { intros pc rp E. unfold pending_fresh in *. nsimpl. apply Forall_pend_put; [exact F|].
    apply pend_find_In in E. rewrite Forall_forall in F. apply (F _ E). }
  destruct H; subst; try exact F.
  - apply PQ; assumption.
  - apply (hr_spec_pending_fresh _ _ _ _ _ _ _ H3). apply PQ; assumption.
  - specialize (PQ pc rp H0). unfold pending_fresh in *. nsimpl. nsimpl_in PQ. apply Forall_pend_remove. exact PQ.
  - specialize (PQ pc rp H0). unfold pending_fresh in *. nsimpl. nsimpl_in PQ. apply Forall_pend_remove. exact PQ.
  - specialize (PQ pc rp H0). unfold pending_fresh in *. nsimpl. nsimpl_in PQ. apply Forall_pend_remove. exact PQ.
  - apply (hr_spec_pending_fresh _ _ _ _ _ _ _ H2). exact F.
Qed.

Theorem pending_fresh_init now max protocol addrs key chal s :
  nserver_new now max protocol addrs key chal = Ok s -> pending_fresh s.
Proof.
  unfold nserver_new. destruct (NC_MAX_CLIENTS <? max); [discriminate|].
  intros H; injection H as <-. constructor.
Qed.

Theorem pending_fresh_step s o s' out : pending_fresh s -> nsstep s o = Ok (s', out) -> pending_fresh s'.
Proof.
  intros F. destruct o as [a0 buf|dt|id|id|id p|m]; cbn [nsstep].
  - destruct (process_packet s a0 buf) as [[s1 r1]|e|site] eqn:E; cbn [bind]; intros H; try discriminate.
    injection H as <- _. cbn [fst]. apply process_packet_inv in E. destruct E as [r0 [E _]].
    apply (ppi_spec_pending_fresh _ _ _ _ _ E F).
  - intros H; injection H as <- _. unfold pending_fresh, nserver_update. nsimpl. apply Forall_filter. exact F.
  - destruct (update_client s id) as [[s1 r1]|e|site] eqn:E; cbn [bind]; intros H; try discriminate.
    injection H as <- _. cbn [fst]. apply update_client_spec in E. destruct E; exact F.
  - destruct (nserver_disconnect s id) as [[s1 r1]|e|site] eqn:E; cbn [bind]; intros H; try discriminate.
    injection H as <- _. cbn [fst]. apply nserver_disconnect_spec in E. destruct E; exact F.
  - destruct (generate_payload_packet s id p) as [s1 r1] eqn:E. apply generate_payload_spec in E.
    destruct E; intros HH; injection HH as <- _; exact F.
  - intros H; injection H as <- _. unfold pending_fresh. rewrite set_max_clients_pending. exact F.
Qed.

(* hence the keep-alive inside SRConnected carries sequence number 0 *)
Corollary promoted_seq_zero s a pc :
  pending_fresh s -> pend_find a (ns_pending s) = Some pc -> nc_seq pc = 0.
Proof.
  intros F H. apply pend_find_In in H. unfold pending_fresh in F. rewrite Forall_forall in F. apply (F _ H).
Qed.

(* ---- along runs ---- *)
Lemma global_seq_mono_run ops : forall s s' outs,
  nsrun s ops = Ok (s', outs) -> ns_global_seq s <= ns_global_seq s'.
Proof.
  induction ops as [|o ops IH]; intros s s' outs; cbn [nsrun].
  - intros H; injection H as <- _. lia.
  - destruct (nsstep s o) as [[s1 out]|e|site] eqn:E; cbn [bind]; try discriminate.
    destruct (nsrun s1 ops) as [[s2 outs2]|e|site] eqn:E2; cbn [bind]; try discriminate.
    intros H; injection H as <- _.
    specialize (IH _ _ _ E2). destruct (global_seq_monotone _ _ _ _ E); lia.
Qed.

(* the global counter moves exactly when a datagram was sealed with it *)
Theorem global_seq_used_iff s o s' out :
  table_inv s -> nsstep s o = Ok (s', out) ->
  (ns_global_seq s' = ns_global_seq s + 1 <->
   exists a d pkt key, out_dgram out = Some (a, d) /\ find_by_addr s a = None /\ packet_id pkt <> 0 /\
      encode OUT_CAP pkt (ns_protocol s) (Some (ns_global_seq s, key)) = Ok d /\
      ns_global_seq s' = ns_global_seq s + 1).
Proof.
  intros T E. split; [|intros (a & d & pkt & key & _ & _ & _ & _ & H); exact H].
  intros Hg.
  assert (Hd : exists a d, out_dgram out = Some (a, d)).
  { destruct o as [a0 buf|dt|id|id|id p|m]; cbn [nsstep] in E.
    - destruct (process_packet s a0 buf) as [[s1 r1]|e|site] eqn:E1; cbn [bind] in E; try discriminate.
      injection E as <- <-. cbn [fst snd] in *. apply process_packet_inv in E1. destruct E1 as [r0 [E1 ->]].
      destruct E1; subst; nsimpl_in Hg; try lia; cbn [res_of out_dgram]; eauto.
      + destruct (hr_spec_global _ _ _ _ _ _ _ H3) as [[Eg _]|[_ [d ->]]]; [nsimpl_in Eg; lia|].
        cbn [res_of out_dgram]. eauto.
      + destruct (hr_spec_global _ _ _ _ _ _ _ H2) as [[Eg _]|[_ [d ->]]]; [lia|].
        cbn [res_of out_dgram]. eauto.
    - injection E as <- _. unfold nserver_update in Hg. nsimpl_in Hg. lia.
    - destruct (update_client s id) as [[s1 r1]|e|site] eqn:E1; cbn [bind] in E; try discriminate.
      injection E as <- _. cbn [fst] in Hg. apply update_client_spec in E1. destruct E1; nsimpl_in Hg; lia.
    - destruct (nserver_disconnect s id) as [[s1 r1]|e|site] eqn:E1; cbn [bind] in E; try discriminate.
      injection E as <- _. cbn [fst] in Hg. apply nserver_disconnect_spec in E1. destruct E1; nsimpl_in Hg; lia.
    - destruct (generate_payload_packet s id p) as [s1 r1] eqn:E1. apply generate_payload_spec in E1.
      destruct E1; injection E as <- _; nsimpl_in Hg; lia.
    - injection E as <- _. unfold set_max_clients in Hg. destruct (len (ns_clients s) <? _); nsimpl_in Hg; lia. }
  destruct Hd as [a [d Hd]]. exists a, d.
  destruct (server_seals_with _ _ _ _ _ _ T E Hd) as [pkt key Hp Ha He Hs | pkt id slot c Hp Hf Ha He Hs _ | pc slot c2 _ _ _ Hs].
  - exists pkt, key. auto.
  - lia.
  - lia.
Qed.

(* a global sequence number that was used is below the counter for ever after *)
Corollary global_seq_never_reused s o s1 out ops s2 outs :
  nsstep s o = Ok (s1, out) -> ns_global_seq s1 = ns_global_seq s + 1 ->
  nsrun s1 ops = Ok (s2, outs) -> ns_global_seq s < ns_global_seq s2.
Proof. intros _ H1 H2. apply global_seq_mono_run in H2. lia. Qed.

(* ---- one connection, as long as it stays: the counters used are nc_seq c, nc_seq c + 1, ... ---- *)
Lemma hr_spec_protocol s a ex xn data s' r : hr_spec s a ex xn data s' r -> ns_protocol s' = ns_protocol s.
Proof. intros H. destruct H; subst; reflexivity. Qed.

Lemma nsstep_protocol s o s' out : nsstep s o = Ok (s', out) -> ns_protocol s' = ns_protocol s.
Proof.
  destruct o as [a0 buf|dt|id|id|id p|m]; cbn [nsstep].
  - destruct (process_packet s a0 buf) as [[s1 r1]|e|site] eqn:E; cbn [bind]; intros H; try discriminate.
    injection H as <- _. cbn [fst]. apply process_packet_inv in E. destruct E as [r0 [E _]].
    destruct E; subst; try reflexivity.
    + apply (hr_spec_protocol _ _ _ _ _ _ _ H3).
    + apply (hr_spec_protocol _ _ _ _ _ _ _ H2).
  - intros H; injection H as <- _. reflexivity.
  - destruct (update_client s id) as [[s1 r1]|e|site] eqn:E; cbn [bind]; intros H; try discriminate.
    injection H as <- _. cbn [fst]. apply update_client_spec in E. destruct E; reflexivity.
  - destruct (nserver_disconnect s id) as [[s1 r1]|e|site] eqn:E; cbn [bind]; intros H; try discriminate.
    injection H as <- _. cbn [fst]. apply nserver_disconnect_spec in E. destruct E; reflexivity.
  - destruct (generate_payload_packet s id p) as [s1 r1] eqn:E. apply generate_payload_spec in E.
    destruct E; intros HH; injection HH as <- _; reflexivity.
  - intros H; injection H as <- _. unfold set_max_clients. destruct (len (ns_clients s) <? _); reflexivity.
Qed.

Definition dgram_to (a : addr) (out : nsout) : list (list N) :=
  match out_dgram out with
  | Some (a', d) => if addr_eqb a' a then [d] else []
  | None => []
  end.
Definition dgrams_to (a : addr) (outs : list nsout) : list (list N) := flat_map (dgram_to a) outs.

Fixpoint stays_connected (id : N) (s : nserver) (ops : list nsop) : Prop :=
  match ops with
  | [] => True
  | o :: t => match nsstep s o with
              | Ok (s1, _) => find_by_id s1 id <> None /\ stays_connected id s1 t
              | _ => True
              end
  end.

Fixpoint seq_from (q : N) (n : nat) : list N :=
  match n with O => [] | S k => q :: seq_from (q + 1) k end.

Lemma conn_step s o s1 out id slot c :
  table_inv s -> nsstep s o = Ok (s1, out) -> find_by_id s id = Some (slot, c) -> find_by_id s1 id <> None ->
  exists c1, find_by_id s1 id = Some (slot, c1) /\ nc_send_key c1 = nc_send_key c /\ nc_addr c1 = nc_addr c /\
    ((nc_seq c1 = nc_seq c /\ dgram_to (nc_addr c) out = []) \/
     (nc_seq c1 = nc_seq c + 1 /\ exists pkt d, packet_id pkt <> 0 /\ dgram_to (nc_addr c) out = [d] /\
        encode OUT_CAP pkt (ns_protocol s) (Some (nc_seq c, nc_send_key c)) = Ok d)).
Proof.
  intros T E Hf Hs.
  destruct (seq_frame _ _ _ _ _ _ _ T E Hf) as [Hn | [c1 [Hf1 [Hk [Ha Hq]]]]]; [contradiction|].
  exists c1. split; [exact Hf1|]. split; [exact Hk|]. split; [exact Ha|].
  destruct Hq as [Hq | [Hq [pkt [d [Hp [Ho He]]]]]].
  - left. split; [exact Hq|]. unfold dgram_to.
    destruct (out_dgram out) as [[a' d]|] eqn:Eo; [|reflexivity].
    destruct (addr_eqb a' (nc_addr c)) eqn:Ea; [|reflexivity]. exfalso.
    apply addr_eqb_eq in Ea. subst a'.
    destruct (find_by_id_addr _ _ _ _ T Hf) as [Hid Hfa].
    destruct (server_seals_with _ _ _ _ _ _ T E Eo) as [pkt key Hp Hna He Hg | pkt id' slot' c'' Hp Hf' Ha' He Hg Hafter | pc slot' c2 Hpf _ _ _ _ _ _ _ _].
    + congruence.
    + destruct (find_by_id_addr _ _ _ _ T Hf') as [Hid' Hfa']. rewrite Ha', Hfa in Hfa'.
      injection Hfa' as <- <-. subst id'. rewrite Hid in Hafter. destruct Hafter as [Hx|Hx]; [|congruence].
      rewrite Hf1 in Hx. injection Hx as ->. cbn [nc_sent nc_seq] in Hq. lia.
    + apply pend_find_In in Hpf. destruct T as (_ & _ & _ & T4 & _). destruct (T4 _ _ Hpf) as [_ Hx]. congruence.
  - right. split; [exact Hq|]. exists pkt, d. split; [exact Hp|]. split; [|exact He].
    unfold dgram_to. rewrite Ho, addr_eqb_refl. reflexivity.
Qed.

Definition sealed_with (proto : N) (key : list N) (d : list N) (q : N) : Prop :=
  exists pkt, packet_id pkt <> 0 /\ encode OUT_CAP pkt proto (Some (q, key)) = Ok d.

Theorem conn_seqs_contiguous ops : forall s s' outs id slot c,
  table_inv s -> nsrun s ops = Ok (s', outs) -> find_by_id s id = Some (slot, c) -> stays_connected id s ops ->
  exists c', find_by_id s' id = Some (slot, c') /\ nc_send_key c' = nc_send_key c /\ nc_addr c' = nc_addr c /\
    nc_seq c <= nc_seq c' /\
    Forall2 (sealed_with (ns_protocol s) (nc_send_key c))
            (dgrams_to (nc_addr c) outs) (seq_from (nc_seq c) (N.to_nat (nc_seq c' - nc_seq c))).
Proof.
  induction ops as [|o ops IH]; intros s s' outs id slot c T; cbn [nsrun stays_connected].
  - intros H Hf _; injection H as <- <-. exists c. repeat split; auto; try lia.
    rewrite N.sub_diag. constructor.
  - destruct (nsstep s o) as [[s1 out]|e|site] eqn:E; cbn [bind]; try discriminate.
    destruct (nsrun s1 ops) as [[s2 outs2]|e|site] eqn:E2; cbn [bind]; try discriminate.
    intros H Hf [Hs Hrest]; injection H as <- <-.
    destruct (conn_step _ _ _ _ _ _ _ T E Hf Hs) as [c1 [Hf1 [Hk1 [Ha1 Hq]]]].
    destruct (IH _ _ _ _ _ _ (table_inv_step _ _ _ _ T E) E2 Hf1 Hrest) as [c' [Hf' [Hk' [Ha' [Hle HF]]]]].
    rewrite (nsstep_protocol _ _ _ _ E), Hk1, Ha1 in HF.
    exists c'. split; [exact Hf'|]. split; [congruence|]. split; [congruence|].
    unfold dgrams_to. cbn [flat_map]. fold (dgrams_to (nc_addr c) outs2).
    destruct Hq as [[Hq Hd] | [Hq [pkt [d [Hp [Hd He]]]]]]; rewrite Hd; cbn [app].
    + rewrite Hq in *. split; [exact Hle | exact HF].
    + split; [lia|].
      replace (N.to_nat (nc_seq c' - nc_seq c)) with (S (N.to_nat (nc_seq c' - nc_seq c1))) by lia.
      cbn [seq_from]. constructor; [exists pkt; auto | rewrite <- Hq; exact HF].
Qed.

Lemma seq_from_lower q n x : In x (seq_from q n) -> q <= x < q + N.of_nat n.
Proof.
  revert q. induction n as [|n IH]; intros q; cbn [seq_from In]; [tauto|].
  intros [<-|H]; [lia|]. specialize (IH _ H). lia.
Qed.

Lemma seq_from_NoDup q n : NoDup (seq_from q n).
Proof.
  revert q. induction n as [|n IH]; intros q; cbn [seq_from]; constructor; [|apply IH].
  intros H. apply seq_from_lower in H. lia.
Qed.

(* in terms of the sequence number readable in the datagrams (Spec dgram_seq): pairwise distinct *)
Corollary conn_dgram_seqs_distinct ops s s' outs id slot c c' :
  table_inv s -> nsrun s ops = Ok (s', outs) -> find_by_id s id = Some (slot, c) -> stays_connected id s ops ->
  find_by_id s' id = Some (slot, c') -> nc_seq c' <= NC_GLOBAL_SEQUENCE_INIT ->
  map dgram_seq (dgrams_to (nc_addr c) outs) = seq_from (nc_seq c) (N.to_nat (nc_seq c' - nc_seq c)) /\
  NoDup (map dgram_seq (dgrams_to (nc_addr c) outs)) /\
  Forall (fun q => q < NC_GLOBAL_SEQUENCE_INIT) (map dgram_seq (dgrams_to (nc_addr c) outs)).
Proof.
  intros T E Hf Hs Hf' Hb.
  destruct (conn_seqs_contiguous _ _ _ _ _ _ _ T E Hf Hs) as [c2 [Hf2 [_ [_ [Hle HF]]]]].
  rewrite Hf' in Hf2. injection Hf2 as <-.
  assert (M : map dgram_seq (dgrams_to (nc_addr c) outs) = seq_from (nc_seq c) (N.to_nat (nc_seq c' - nc_seq c))).
  { assert (B : forall x, In x (seq_from (nc_seq c) (N.to_nat (nc_seq c' - nc_seq c))) -> x < U64).
    { intros x Hx. apply seq_from_lower in Hx. rewrite global_seq_init_val in Hb. unfold U64.
      assert (2 ^ 63 < 18446744073709551616) by reflexivity. lia. }
    revert B. induction HF as [|d q ds qs [pkt [Hp He]] HF IH]; intros B; cbn [map]; [reflexivity|].
    rewrite (encode_dgram_seq _ _ _ _ _ _ Hp (B _ (or_introl eq_refl)) He), IH; [reflexivity|].
    intros x Hx. apply B. right. exact Hx. }
  split; [exact M|]. rewrite M. split; [apply seq_from_NoDup|].
  apply Forall_forall. intros x Hx. apply seq_from_lower in Hx. lia.
Qed.


(* ------------------------------------------------------------------ *)
(* a valid challenge response is accepted - whatever ns_max says       *)
(* ------------------------------------------------------------------ *)
Lemma count_after_insert s idx c :
  first_free (ns_clients s) 0 = Some idx -> connected_count (set_slot s idx (Some c)) = connected_count s + 1.
Proof.
  intros H. destruct (free_split _ _ H) as [l1 [l2 [E1 [E2 E5]]]].
  unfold connected_count. rewrite E5, E1, !count_some_app, count_some_cons_some, count_some_cons_none. lia.
Qed.

(* No hypothesis on ns_max: the limit is only looked at when the request arrives.  After NSSetMax has
   lowered the limit, pending clients are still promoted as long as a slot is free, so that
   connected_count can grow above ns_max (compare full_server_refuses, which needs
   len (ns_clients s) = ns_max s). *)
Theorem response_connects s a pc ts q buf idx :
  find_by_addr s a = None -> pend_find a (ns_pending s) = Some pc ->
  find_by_id s (nc_id pc) = None -> first_free (ns_clients s) 0 = Some idx ->
  nc_id pc < U64 -> len (nc_user pc) = NC_USER_DATA_BYTES -> ts < U64 -> q < U64 -> nc_chal_floor pc <= ts ->
  encode OUT_CAP (PResponse ts (aead_seal (ns_chal_key s) (nonce_of ts) [] (challenge_plain (nc_id pc) (nc_user pc))))
         (ns_protocol s) (Some (q, nc_recv_key pc)) = Ok buf ->
  exists s' out, process_packet s a buf = Ok (s', SRConnected (nc_id pc) a (nc_user pc) out) /\
                 connected_count s' = connected_count s + 1 /\ ns_max s' = ns_max s.
Proof.
  intros Ea Ep Ei Ef Hid Hu Hts Hq Hfl He.
  pose proof (challenge_decode_generate (nc_id pc) (nc_user pc) ts (ns_chal_key s) Hid Hu) as Hc.
  unfold generate_challenge in Hc. destruct Hc as [_ [Ltd Hcd]].
  set (td := aead_seal (ns_chal_key s) (nonce_of ts) [] (challenge_plain (nc_id pc) (nc_user pc))) in *.
  assert (Hp3 : packet_id (PResponse ts td) <> 0) by (cbn [packet_id]; lia).
  assert (Lb : len (packet_body (PResponse ts td)) = 8 + NC_CHALLENGE_BYTES).
  { cbn [packet_body]. unfold le64. rewrite len_app, len_le_bytes. lia. }
  assert (Hdec : decode buf (ns_protocol s) (Some (nc_recv_key pc)) (Some (nc_replay pc)) =
                 (Some (nc_replay pc), Ok (q, PResponse ts td))).
  { rewrite (decode_encode OUT_CAP (PResponse ts td) (ns_protocol s) q (nc_recv_key pc) buf (Some (nc_replay pc))); try assumption.
    - reflexivity.
    - cbn [npacket_wf]. auto.
    - rewrite Lb. lia.
    - intros r _. reflexivity. }
  assert (Hlen : (len buf <? 2 + NC_MAC_BYTES) = false).
  { pose proof (encode_sealed_len _ _ _ _ _ _ Hp3 He) as L. rewrite Lb in L. lia. }
  destruct (encode_small_ok (PKeepAlive idx (ns_max s)) (ns_protocol s) (nc_seq pc) (nc_send_key pc)) as [out Eo].
  { cbn [packet_id]. lia. }
  { cbn [packet_body]. unfold le32. rewrite len_app, !len_le_bytes. lia. }
  eexists. exists out. split.
  unfold process_packet, process_packet_internal.
  rewrite Hlen, Ea, Ep, Hdec. cbv beta iota zeta. nsimpl. cbn [opt_replay].
  rewrite Hcd. cbv beta iota.
  assert (E1 : (ts <? nc_chal_floor pc) = false) by lia. rewrite E1.
  rewrite N.eqb_refl, bytes_eqb_refl. cbn [negb orb].
  match goal with |- context [find_by_id ?x (nc_id pc)] => change (find_by_id x (nc_id pc)) with (find_by_id s (nc_id pc)) end.
  rewrite Ei, Ef, Eo. reflexivity.
  split; [|reflexivity]. apply (count_after_insert (set_pending s _) idx _ Ef).
Qed.

Corollary limit_bypassed_after_lowering s a pc ts q buf idx :
  ns_max s <= connected_count s ->
  find_by_addr s a = None -> pend_find a (ns_pending s) = Some pc ->
  find_by_id s (nc_id pc) = None -> first_free (ns_clients s) 0 = Some idx ->
  nc_id pc < U64 -> len (nc_user pc) = NC_USER_DATA_BYTES -> ts < U64 -> q < U64 -> nc_chal_floor pc <= ts ->
  encode OUT_CAP (PResponse ts (aead_seal (ns_chal_key s) (nonce_of ts) [] (challenge_plain (nc_id pc) (nc_user pc))))
         (ns_protocol s) (Some (q, nc_recv_key pc)) = Ok buf ->
  exists s' id u p, process_packet s a buf = Ok (s', SRConnected id a u p) /\ ns_max s' < connected_count s'.
Proof.
  intros Hm Ea Ep Ei Ef Hid Hu Hts Hq Hfl He.
  destruct (response_connects _ _ _ _ _ _ _ Ea Ep Ei Ef Hid Hu Hts Hq Hfl He) as [s' [out [H1 [H2 H3]]]].
  exists s', (nc_id pc), (nc_user pc), out. split; [exact H1 | lia].
Qed.


(* the hypotheses of the corollary are consistent with table_inv: a state with limit 0, one free slot
   (the limit was 1 when the request came in) and one pending client *)
Definition bypass_pc : nconn :=
  {| nc_confirmed := false; nc_id := 7; nc_send_key := ex_key; nc_recv_key := ex_key; nc_user := zeros NC_USER_DATA_BYTES;
     nc_addr := ex_peer; nc_last_recv := 0; nc_last_send := 0; nc_timeout := 15%Z; nc_seq := 0; nc_expire := 100;
     nc_replay := replay_new; nc_chal_floor := 1 |}.
Definition bypass_state : nserver :=
  {| ns_clients := [None]; ns_pending := [(ex_peer, bypass_pc)]; ns_entries := []; ns_protocol := 42;
     ns_connect_key := ex_key; ns_max := 0; ns_chal_seq := 1; ns_chal_key := ex_chal_key; ns_addrs := [ex_addr];
     ns_now := 0; ns_global_seq := NC_GLOBAL_SEQUENCE_INIT + 1; ns_secure := true |}.

Example limit_bypass_witness :
  table_inv bypass_state /\ pending_fresh bypass_state /\
  exists buf s' id u p,
    process_packet bypass_state ex_peer buf = Ok (s', SRConnected id ex_peer u p) /\
    ns_max s' = 0 /\ connected_count s' = 1.
Proof.
  split; [|split].
  - unfold table_inv, bypass_state, connected. nsimpl. cbn [some_list map fst distinct_by In].
    repeat split; try tauto; try constructor.
    + destruct H as [H|[]]. injection H as <- <-. reflexivity.
    + cbn [snd]. apply replay_new_wf.
    + constructor.
  - repeat constructor.
  - set (td := aead_seal (ns_chal_key bypass_state) (nonce_of 1) [] (challenge_plain (nc_id bypass_pc) (nc_user bypass_pc))).
    destruct (encode_small_ok (PResponse 1 td) (ns_protocol bypass_state) 0 (nc_recv_key bypass_pc)) as [buf Eb].
    { cbn [packet_id]. lia. }
    { cbn [packet_body]. unfold le64, td. rewrite len_app, len_le_bytes, aead_seal_len.
      unfold challenge_plain, le64. rewrite !len_app, len_zeros. rewrite !len_le_bytes. cbn [bypass_pc nc_user].
      rewrite len_zeros, user_data_val, challenge_val, mac_val. lia. }
    assert (U : 1 < U64 /\ 0 < U64 /\ 7 < U64) by (unfold U64; lia).
    destruct U as [U1 [U0 U7]].
    assert (Hu : len (nc_user bypass_pc) = NC_USER_DATA_BYTES) by apply len_zeros.
    assert (Hfl : nc_chal_floor bypass_pc <= 1) by (cbn [bypass_pc nc_chal_floor]; lia).
    destruct (response_connects bypass_state ex_peer bypass_pc 1 0 buf 0
                eq_refl eq_refl eq_refl eq_refl U7 Hu U1 U0 Hfl Eb) as [s' [out [H1 [H2 H3]]]].
    exists buf, s', (nc_id bypass_pc), (nc_user bypass_pc), out. split; [exact H1|]. split; [exact H3|].
    rewrite H2. reflexivity.
Qed.

(* ------------------------------------------------------------------ *)
(* the remaining panic site of NServer.v: time_since_last_received     *)
(* ------------------------------------------------------------------ *)
Definition clock_inv (s : nserver) : Prop := Forall (fun c => nc_last_recv c <= ns_now s) (connected s).

Lemma hr_spec_now s a ex xn data s' r : hr_spec s a ex xn data s' r -> ns_now s' = ns_now s.
Proof. intros H. destruct H; subst; reflexivity. Qed.

Lemma nsstep_now s o s' out :
  nsstep s o = Ok (s', out) -> ns_now s' = match o with NSUpdate dt => ns_now s + dt | _ => ns_now s end.
Proof.
  destruct o as [a0 buf|dt|id|id|id p|m]; cbn [nsstep].
  - destruct (process_packet s a0 buf) as [[s1 r1]|e|site] eqn:E; cbn [bind]; intros H; try discriminate.
    injection H as <- _. cbn [fst]. apply process_packet_inv in E. destruct E as [r0 [E _]].
    destruct E; subst; try reflexivity.
    + apply (hr_spec_now _ _ _ _ _ _ _ H3).
    + apply (hr_spec_now _ _ _ _ _ _ _ H2).
  - intros H; injection H as <- _. reflexivity.
  - destruct (update_client s id) as [[s1 r1]|e|site] eqn:E; cbn [bind]; intros H; try discriminate.
    injection H as <- _. cbn [fst]. apply update_client_spec in E. destruct E; reflexivity.
  - destruct (nserver_disconnect s id) as [[s1 r1]|e|site] eqn:E; cbn [bind]; intros H; try discriminate.
    injection H as <- _. cbn [fst]. apply nserver_disconnect_spec in E. destruct E; reflexivity.
  - destruct (generate_payload_packet s id p) as [s1 r1] eqn:E. apply generate_payload_spec in E.
    destruct E; intros HH; injection HH as <- _; reflexivity.
  - intros H; injection H as <- _. unfold set_max_clients. destruct (len (ns_clients s) <? _); reflexivity.
Qed.

Theorem clock_inv_init now max protocol addrs key chal s :
  nserver_new now max protocol addrs key chal = Ok s -> clock_inv s.
Proof.
  unfold nserver_new. destruct (NC_MAX_CLIENTS <? max); [discriminate|].
  intros H; injection H as <-. unfold clock_inv, connected. nsimpl. rewrite some_list_repeat_none. constructor.
Qed.

Theorem clock_inv_step s o s' out : clock_inv s -> nsstep s o = Ok (s', out) -> clock_inv s'.
Proof.
  unfold clock_inv. intros C E. rewrite Forall_forall in C.
  assert (Hnow : ns_now s <= ns_now s') by (rewrite (nsstep_now _ _ _ _ E); destruct o; lia).
  assert (Old : forall c, In (Some c) (ns_clients s) -> nc_last_recv c <= ns_now s').
  { intros c Hc. apply some_list_In in Hc. specialize (C _ Hc). lia. }
  apply Forall_forall. intros c' Hc'. unfold connected in Hc'. apply some_list_In in Hc'.
  destruct (nsstep_slot_change _ _ _ _ E) as [Hc | n Hc | k c0 c2 Hk Hc _ _ _ _ Hr | k c0 pkt d Hk Hc _ _ _
                                             | k c0 Hk Hc | k c2 Hk Hc Hr]; rewrite Hc in Hc'.
  - auto.
  - apply in_app_or in Hc'. destruct Hc' as [H|H]; [auto|]. apply In_repeatN in H. discriminate.
  - apply In_upd in Hc'. destruct Hc' as [H|H]; [|auto]. injection H as ->.
    apply nth_opt_In in Hk. specialize (Old _ Hk). lia.
  - apply In_upd in Hc'. destruct Hc' as [H|H]; [|auto]. injection H as ->.
    apply nth_opt_In in Hk. apply (Old _ Hk).
  - apply In_upd in Hc'. destruct Hc' as [H|H]; [discriminate|auto].
  - apply In_upd in Hc'. destruct Hc' as [H|H]; [|auto]. injection H as ->. lia.
Qed.

Theorem time_since_no_panic s id : clock_inv s -> exists r, time_since_last_received s id = Ok r.
Proof.
  intros C. unfold time_since_last_received. destruct (find_by_id s id) as [[slot c]|] eqn:E; [|eauto].
  apply find_slot_by_In in E. destruct E as [Hin _]. unfold clock_inv in C. rewrite Forall_forall in C.
  specialize (C _ Hin). unfold sub_chk. destruct (nc_last_recv c <=? ns_now s) eqn:E1; [|lia].
  cbn [bind]. eauto.
Qed.

(* ------------------------------------------------------------------ *)
Print Assumptions process_packet_no_panic.
Print Assumptions update_client_no_panic.
Print Assumptions nserver_disconnect_no_panic.
Print Assumptions generate_payload_no_panic.
Print Assumptions nsstep_no_panic.
Print Assumptions table_inv_init.
Print Assumptions table_inv_step.
Print Assumptions table_inv_run.
Print Assumptions lookup_unique.
Print Assumptions slots_bound.
Print Assumptions connected_le_slots.
Print Assumptions connected_bound_run.
Print Assumptions events_matched.
Print Assumptions full_server_refuses.
Print Assumptions no_amplification.
Print Assumptions server_times_out_silent.
Print Assumptions server_keeps_live.
Print Assumptions pending_expires.
Print Assumptions global_seq_monotone.
Print Assumptions global_seq_ge_init_run.
Print Assumptions global_seq_used_iff.
Print Assumptions server_seals_with.
Print Assumptions seq_frame.
Print Assumptions pending_fresh_step.
Print Assumptions conn_seqs_contiguous.
Print Assumptions conn_dgram_seqs_distinct.
Print Assumptions encode_dgram_seq.
Print Assumptions server_example.
Print Assumptions response_connects.
Print Assumptions limit_bypassed_after_lowering.
Print Assumptions clock_inv_step.
Print Assumptions time_since_no_panic.
Print Assumptions limit_bypass_witness.
