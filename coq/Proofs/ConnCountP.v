(* ConnCountP.v - how many packets one get_packets_to_send can emit, and that under
   counters_small every integer the encoder writes as a varint is at most 2^62 - 1. *)
From RenetV Require Import Base Consts Varint Packet Channels Conn Server.
From RenetV Require Import CodecSpec RecvSpec SendSpec ConnSpec ConnInvSpec.
From RenetV Require Import SMapP ConnBaseP ConnProcP ConnFlushP.
From RenetV Require AcksP VarintP PacketP RecvRelP RecvUnrelP SMapSendP SendRelP SendUnrelP DisconnectP ConnEncP.
Require Import Lia ZifyBool ZifyN ZifyNat Permutation.
Open Scope N_scope.

Arguments N.add : simpl never.
Arguments N.sub : simpl never.
Arguments N.mul : simpl never.
Arguments N.div : simpl never.
Arguments N.modulo : simpl never.
Arguments N.eqb : simpl never.
Arguments N.ltb : simpl never.
Arguments N.leb : simpl never.
Local Opaque SLICE_SIZE MAX_ACK_RANGES SER_BUFFER NC_MAX_PAYLOAD_BYTES DISCARD_PACKET_SECS VARINT_MAX.

Lemma len_map' {A B} (f : A -> B) l : len (map f l) = len l.
Proof. unfold len. now rewrite map_length. Qed.

Lemma len_le_length {A B} (a : list A) (b : list B) : (length a <= length b)%nat -> len a <= len b.
Proof. unfold len. lia. Qed.

(* ================================================================== *)
(* A. reliable channel: every packet carries a pending part, except at most one empty one *)

Definition all_parts (us : list (N * unacked)) : list (N * option N) :=
  flat_map (fun iu => match snd iu with
                      | USmall _ _ => [(fst iu, None)]
                      | USliced _ num _ _ _ _ => map (fun i => (fst iu, Some i)) (iota num)
                      end) us.

Lemma len_all_parts us : len (all_parts us) = sum (map (fun iu => unacked_parts (snd iu)) us).
Proof.
  induction us as [|[id u] t IH]; [reflexivity|].
  cbn [all_parts flat_map map snd fst]. fold (all_parts t). rewrite len_app, sum_cons, IH.
  f_equal. destruct u; cbn [unacked_parts]; [reflexivity|]. now rewrite len_map', len_iota.
Qed.

Lemma pkt_ok_parts ch us p :
  SendRelP.pkt_ok ch (SendRelP.st_of us) p -> incl (parts_of [p]) (all_parts us).
Proof.
  destruct p as [sq c ms|sq c ms|sq c sl|sq c sl|sq rs]; cbn [SendRelP.pkt_ok parts_of]; try contradiction.
  - intros [_ HF] x Hx. rewrite app_nil_r in Hx. apply in_map_iff in Hx. destruct Hx as (im & <- & Him).
    rewrite Forall_forall in HF. specialize (HF _ Him). unfold SendRelP.entry_ok, SendRelP.st_of in HF.
    destruct (sm_find (fst im) us) as [u|] eqn:Ef; [|discriminate].
    apply sm_find_in in Ef. unfold all_parts. apply in_flat_map. exists (fst im, u). split; [exact Ef|].
    cbn [fst snd]. destruct u; cbn [SendRelP.static_of] in HF; [now left|discriminate].
  - intros [_ (m & num & Hst & _ & Hidx)] x [<-|[]]. unfold SendRelP.st_of in Hst.
    destruct (sm_find (sl_id sl) us) as [u|] eqn:Ef; [|discriminate].
    apply sm_find_in in Ef. unfold all_parts. apply in_flat_map. exists (sl_id sl, u). split; [exact Ef|].
    cbn [fst snd]. destruct u as [|m' num' na nx ak ls]; cbn [SendRelP.static_of] in Hst; [discriminate|].
    inversion Hst; subst. apply in_map_iff. exists (sl_index sl). split; [reflexivity|].
    now apply in_iota.
Qed.

Lemma parts_of_cons p t : parts_of (p :: t) = parts_of [p] ++ parts_of t.
Proof. apply (SendRelP.parts_of_app [p] t). Qed.

Lemma pkts_ok_parts ch us pkts :
  Forall (SendRelP.pkt_ok ch (SendRelP.st_of us)) pkts -> incl (parts_of pkts) (all_parts us).
Proof.
  induction 1 as [|p t Hp _ IH]; [intros x []|].
  rewrite parts_of_cons. apply incl_app; [eapply pkt_ok_parts; eauto|exact IH].
Qed.

Definition is_nil {A} (l : list A) : bool := match l with [] => true | _ => false end.

Lemma pkts_count ch st pkts :
  Forall (SendRelP.pkt_ok ch st) pkts ->
  len pkts <= len (parts_of pkts) + len (filter is_nil (SendRelP.bodies pkts)).
Proof.
  induction 1 as [|p t Hp _ IH]; [rewrite !len_nil; lia|].
  rewrite len_cons, parts_of_cons, len_app.
  change (p :: t) with ([p] ++ t). rewrite SendRelP.bodies_app, filter_app, len_app.
  destruct p as [sq c ms|sq c ms|sq c sl|sq c sl|sq rs]; cbn [SendRelP.pkt_ok] in Hp; try contradiction.
  - unfold SendRelP.bodies at 1. cbn [flat_map app parts_of filter]. rewrite app_nil_r, len_map'.
    destruct ms as [|im ms]; cbn [is_nil]; rewrite ?len_cons, ?len_nil; lia.
  - unfold SendRelP.bodies at 1. cbn [flat_map app parts_of filter]. rewrite len_cons, !len_nil. lia.
Qed.

Lemma filter_nil_nonempty {A} (more : list (list A)) :
  Forall (fun b => b <> []) more -> filter is_nil more = [].
Proof.
  induction 1 as [|b t Hb _ IH]; [reflexivity|]. cbn [filter].
  destruct b; [contradiction|]. cbn [is_nil]. exact IH.
Qed.

Lemma shape_empties F : SendRelP.shape F -> len (filter is_nil F) <= 1.
Proof.
  destruct F as [|[|im r] F']; cbn [SendRelP.shape filter is_nil].
  - intros _. rewrite len_nil. lia.
  - destruct F' as [|[|im r] more]; try contradiction. intros [_ H].
    cbn [filter is_nil]. rewrite (filter_nil_nonempty _ H), len_cons, len_nil. lia.
  - intros [_ H]. rewrite (filter_nil_nonempty _ H), len_nil. lia.
Qed.

Lemma same_static_parts u u' : SendRelP.same_static u u' -> unacked_parts u' = unacked_parts u.
Proof.
  destruct u, u'; cbn [SendRelP.same_static unacked_parts]; try tauto. intros (_ & -> & _). reflexivity.
Qed.

Lemma sr_len_bound now s seq avail s' pkts seq' avail' :
  sr_inv now s -> sr_get_packets s seq avail now = Ok (s', pkts, seq', avail') ->
  len pkts <= sr_pkt_bound s /\ sr_pkt_bound s' = sr_pkt_bound s.
Proof.
  intros Hinv E. destruct (SendRelP.sr_get_packets_facts _ _ _ _ _ _ _ _ Hinv E) as (new & T).
  split.
  - pose proof (pkts_count _ _ _ (SendRelP.tf_pkts _ _ _ _ _ _ _ _ T)) as H1.
    pose proof (shape_empties _ (SendRelP.tf_shape _ _ _ _ _ _ _ _ T)) as H2.
    pose proof (pkts_ok_parts _ _ _ (SendRelP.tf_pkts _ _ _ _ _ _ _ _ T)) as H3.
    pose proof (SendRelP.tick_nodup _ _ _ _ _ _ _ _ T) as H4.
    pose proof (NoDup_incl_length H4 H3) as H5. apply len_le_length in H5.
    rewrite len_all_parts in H5. unfold sr_pkt_bound. lia.
  - unfold sr_pkt_bound. f_equal.
    eapply SendRelP.Forall2_sum_eq; [|exact (SendRelP.tf_rel _ _ _ _ _ _ _ _ T)].
    intros x y (_ & _ & V3 & _). cbv beta. now apply same_static_parts.
Qed.

(* ================================================================== *)
(* B. unreliable channel *)

Lemma su_msg_bound_large m : SendUnrelP.is_large m = true -> su_msg_bound m = num_slices_of m.
Proof. unfold su_msg_bound, SendUnrelP.is_large. intros ->. reflexivity. Qed.
Lemma su_msg_bound_small m : SendUnrelP.is_large m = false -> su_msg_bound m = 1.
Proof. unfold su_msg_bound, SendUnrelP.is_large. intros ->. reflexivity. Qed.

Lemma su_pack_len ch : forall kept sid seq cur,
  len (SendUnrelP.su_pack ch kept sid seq cur) <= sum (map su_msg_bound kept) + 1.
Proof.
  induction kept as [|m t IH]; intros sid seq cur; cbn [SendUnrelP.su_pack map].
  - rewrite sum_nil. destruct cur; rewrite ?len_cons, len_nil; lia.
  - rewrite sum_cons. destruct (SendUnrelP.is_large m) eqn:El.
    + rewrite len_app, SendUnrelP.len_unrel_slice_pkts, (su_msg_bound_large _ El).
      specialize (IH (sid + 1) (seq + num_slices_of m) cur). lia.
    + rewrite (su_msg_bound_small _ El). destruct (SLICE_SIZE <? _).
      * rewrite len_cons. specialize (IH sid (seq + 1) [m]). lia.
      * specialize (IH sid seq (cur ++ [m])). lia.
Qed.

Lemma su_kept_bound q : forall avail,
  sum (map su_msg_bound (SendUnrelP.su_kept avail q)) <= sum (map su_msg_bound q).
Proof.
  induction q as [|m t IH]; intros avail; cbn [SendUnrelP.su_kept map]; [lia|].
  rewrite sum_cons. destruct (avail <? len m); cbn [map]; rewrite ?sum_cons.
  - specialize (IH avail). lia.
  - specialize (IH (avail - len m)). lia.
Qed.

Lemma su_len_bound s seq avail s' pkts seq' avail' :
  su_inv s -> su_get_packets s seq avail = Ok (s', pkts, seq', avail') ->
  len pkts <= su_pkt_bound s /\ su_pkt_bound s' <= su_pkt_bound s.
Proof.
  intros Hinv E. rewrite (SendUnrelP.su_get_packets_spec s seq avail Hinv) in E.
  unfold SendUnrelP.su_spec in E. inversion E; subst. clear E. unfold su_pkt_bound. cbn [su_queue map].
  pose proof (su_pack_len (su_ch s) (SendUnrelP.su_kept avail (su_queue s)) (su_sliced_id s) seq []).
  pose proof (su_kept_bound (su_queue s) avail). rewrite sum_nil. split; lia.
Qed.

(* ================================================================== *)
(* C. the gathering loop *)

Definition order_bound (c : conn) (ord : list (bool * N)) : N := sum (map (chan_pkt_bound c) ord).

Lemma order_bound_mono c c' ord :
  (forall e, chan_pkt_bound c' e <= chan_pkt_bound c e) -> order_bound c' ord <= order_bound c ord.
Proof.
  intros H. unfold order_bound. induction ord as [|e t IH]; cbn [map]; [lia|].
  rewrite !sum_cons. specialize (H e). lia.
Qed.

Lemma gather_len ord c avail c1 av pk :
  gather_rel ord c avail c1 av pk -> conn_inv c -> len pk <= order_bound c ord.
Proof.
  induction 1 as [c avail|ch t c avail s s' pk seq' avail1 c2 avail2 pk2 Hs Eg Hrel IH
                         |ch t c avail s s' pk seq' avail1 c2 avail2 pk2 Hs Eg Hrel IH]; intros Hi.
  - rewrite len_nil. lia.
  - destruct (gather_step_rel c ch s avail s' pk seq' avail1 Hi Hs Eg) as (Hi' & _).
    destruct (inv_find_sr _ _ _ Hi Hs) as [Hsi _].
    destruct (sr_len_bound _ _ _ _ _ _ _ _ Hsi Eg) as [Hlen Hsame].
    specialize (IH Hi'). rewrite len_app. unfold order_bound at 1. cbn [map]. rewrite sum_cons.
    fold (order_bound c t). unfold chan_pkt_bound at 1. cbn [fst snd]. rewrite Hs.
    assert (Hm : order_bound (with_seq (with_sr c (sm_insert ch s' (c_sr c))) seq') t <= order_bound c t).
    { apply order_bound_mono. intros [b k]. unfold chan_pkt_bound. cbn [fst snd with_seq with_sr c_sr c_su].
      destruct b; [|lia]. rewrite sm_find_insert. destruct (N.eqb_spec k ch) as [->|]; [|lia].
      rewrite Hs. lia. }
    lia.
  - destruct (gather_step_unrel c ch s avail s' pk seq' avail1 Hi Hs Eg) as (Hi' & _).
    destruct (inv_find_su _ _ _ Hi Hs) as [Hsi _].
    destruct (su_len_bound _ _ _ _ _ _ _ Hsi Eg) as [Hlen Hsame].
    specialize (IH Hi'). rewrite len_app. unfold order_bound at 1. cbn [map]. rewrite sum_cons.
    fold (order_bound c t). unfold chan_pkt_bound at 1. cbn [fst snd]. rewrite Hs.
    assert (Hm : order_bound (with_seq (with_su c (sm_insert ch s' (c_su c))) seq') t <= order_bound c t).
    { apply order_bound_mono. intros [b k]. unfold chan_pkt_bound. cbn [fst snd with_seq with_su c_sr c_su].
      destruct b; [lia|]. rewrite sm_find_insert. destruct (N.eqb_spec k ch) as [->|]; [|lia].
      rewrite Hs. lia. }
    lia.
Qed.

(* ================================================================== *)
(* D. the varint fields of the gathered packets *)

Definition body_vok (p : packet) : Prop :=
  match p with
  | SmallReliable _ _ ms => Forall ConnEncP.rel_msg_vok ms
  | SmallUnreliable _ _ ms => Forall ConnEncP.unrel_msg_vok ms
  | ReliableSlice _ _ s | UnreliableSlice _ _ s => ConnEncP.slice_vok s
  | Ack _ _ => True
  end.

Lemma varints_ok_split p : ConnEncP.varints_ok p <-> packet_seq p <= VARINT_MAX /\ body_vok p.
Proof. destruct p; cbn [ConnEncP.varints_ok packet_seq body_vok]; tauto. Qed.

Lemma num_slices_le m : 0 < len m -> num_slices_of m <= len m.
Proof.
  intros H. unfold num_slices_of.
  destruct (SMapSendP.div_ceil_spec (len m) SLICE_SIZE SMapSendP.SS_pos H) as (H1 & H2 & H3).
  pose proof SMapSendP.SS_pos. nia.
Qed.

Lemma rel_body_vok now ch s' p :
  sr_inv now s' -> sr_small s' -> rel_packet_ok ch s' p -> SendRelP.rel_size_ok s' p -> body_vok p.
Proof.
  intros Hinv [Hn Hmax] Hok Hsz. pose proof SLICE_SIZE_le_VARINT_MAX as HSS.
  destruct p as [sq c ms|sq c ms|sq c sl|sq c sl|sq rs]; cbn [rel_packet_ok] in Hok; try contradiction;
    cbn [SendRelP.rel_size_ok body_vok] in *.
  - destruct Hok as [_ Hok]. destruct Hsz as (_ & _ & _ & Hlen).
    rewrite Forall_forall in *. intros im Him. destruct (Hok _ Him) as (_ & l & Hf).
    destruct (SendRelP.sr_inv_find _ _ _ _ Hinv Hf) as (Hlt & _). specialize (Hlen _ Him).
    split; lia.
  - destruct Hok as (_ & m & num & na & nx & ak & ls & Hf & Hsl & Hidx).
    destruct (SendRelP.sr_inv_find _ _ _ _ Hinv Hf) as (Hlt & Hwf & Hmem).
    cbn [unacked_wf unacked_len] in Hwf, Hmem. destruct Hwf as (Hbig & -> & _).
    destruct Hinv as (_ & _ & _ & Hle). destruct Hsz as ((_ & Hpay) & _).
    pose proof (num_slices_le m ltac:(lia)) as Hns.
    pose proof (f_equal sl_num Hsl) as Hnum. cbn [slice_of sl_num] in Hnum.
    unfold ConnEncP.slice_vok. rewrite Hnum. repeat split; lia.
Qed.

Lemma uslices_vok ch sid m seq idxs :
  sid <= VARINT_MAX -> 0 < len m -> len m <= VARINT_MAX ->
  (forall i, In i idxs -> i < num_slices_of m) ->
  Forall body_vok (SendUnrelP.uslices ch sid m seq idxs).
Proof.
  intros Hsid Hpos Hlen. pose proof SLICE_SIZE_le_VARINT_MAX as HSS.
  pose proof (num_slices_le m Hpos) as Hns.
  revert seq. induction idxs as [|i t IH]; intros seq Hin; cbn [SendUnrelP.uslices]; constructor.
  - cbn [body_vok]. unfold ConnEncP.slice_vok. cbn [slice_of sl_id sl_index sl_num sl_payload].
    pose proof (Hin i (or_introl eq_refl)) as Hi.
    pose proof (SMapSendP.plen_bounds m i Hpos Hi) as Hb. unfold SMapSendP.plen in Hb.
    repeat split; lia.
  - apply IH. intros j Hj. apply Hin. now right.
Qed.

Lemma su_pack_vok ch : forall kept sid seq cur,
  Forall (fun m => len m <= VARINT_MAX) kept -> Forall (fun m => len m <= VARINT_MAX) cur ->
  sid + len (filter SendUnrelP.is_large kept) <= VARINT_MAX + 1 ->
  Forall body_vok (SendUnrelP.su_pack ch kept sid seq cur).
Proof.
  induction kept as [|m t IH]; intros sid seq cur Hk Hc Hsid; cbn [SendUnrelP.su_pack].
  - destruct cur; [constructor|]. constructor; [|constructor]. exact Hc.
  - inversion Hk as [|? ? Hm Ht]; subst. cbn [filter] in Hsid.
    destruct (SendUnrelP.is_large m) eqn:El.
    + rewrite len_cons in Hsid. apply Forall_app. split.
      * unfold SendUnrelP.unrel_slice_pkts. apply uslices_vok; [lia|now apply SendUnrelP.is_large_pos|exact Hm|].
        intros i. apply in_iota.
      * apply IH; auto. lia.
    + destruct (SLICE_SIZE <? _).
      * constructor; [exact Hc|]. apply IH; auto.
      * apply IH; auto. apply Forall_app. split; [exact Hc|]. constructor; [exact Hm|constructor].
Qed.

Lemma in_len_le_sum (m : list N) q : In m q -> len m <= sum (map len q).
Proof.
  induction q as [|x t IH]; [intros []|]. cbn [map]. rewrite sum_cons.
  intros [->|H]; [lia|]. specialize (IH H). lia.
Qed.

Lemma su_kept_large q : forall avail,
  len (filter SendUnrelP.is_large (SendUnrelP.su_kept avail q)) <= len (filter SendUnrelP.is_large q).
Proof.
  induction q as [|m t IH]; intros avail; cbn [SendUnrelP.su_kept filter]; [lia|].
  destruct (avail <? len m); cbn [filter]; destruct (SendUnrelP.is_large m); rewrite ?len_cons.
  - specialize (IH avail). lia.
  - apply IH.
  - specialize (IH (avail - len m)). lia.
  - apply IH.
Qed.

Lemma su_body_vok s seq avail s' pkts seq' avail' :
  su_inv s -> su_small s -> su_get_packets s seq avail = Ok (s', pkts, seq', avail') ->
  Forall body_vok pkts /\ su_small s'.
Proof.
  intros [Hmem Hle] [Hid Hmax] E. rewrite (SendUnrelP.su_get_packets_spec s seq avail (conj Hmem Hle)) in E.
  unfold SendUnrelP.su_spec in E. inversion E; subst. clear E.
  pose proof (su_kept_large (su_queue s) avail) as Hl.
  unfold su_large_count in Hid. fold SendUnrelP.is_large in Hid.
  split.
  - apply su_pack_vok; [|constructor|lia].
    rewrite Forall_forall. intros m Hm. apply SendUnrelP.su_kept_in in Hm.
    pose proof (in_len_le_sum m _ Hm). lia.
  - unfold su_small, su_large_count. cbn [su_sliced_id su_queue su_max filter]. rewrite len_nil. split; lia.
Qed.

Definition chans_small (c : conn) : Prop :=
  Forall (fun e => sr_small (snd e)) (c_sr c) /\ Forall (fun e => su_small (snd e)) (c_su c).

Lemma gather_vok ord c avail c1 av pk :
  gather_rel ord c avail c1 av pk -> conn_inv c -> chans_small c ->
  Forall body_vok pk /\ chans_small c1.
Proof.
  induction 1 as [c avail|ch t c avail s s' pk seq' avail1 c2 avail2 pk2 Hs Eg Hrel IH
                         |ch t c avail s s' pk seq' avail1 c2 avail2 pk2 Hs Eg Hrel IH]; intros Hi [Hsr Hsu].
  - split; [constructor|split; assumption].
  - destruct (gather_step_rel c ch s avail s' pk seq' avail1 Hi Hs Eg)
      as (Hi' & _ & _ & _ & _ & _ & Hnext & Hcfg & Hok).
    destruct (inv_find_sr _ _ _ Hi Hs) as [Hsi _].
    pose proof (SendRelP.sr_get_packets_sizes _ _ _ _ _ _ _ _ Hsi Eg) as Hsz.
    pose proof (Forall_find _ _ _ _ Hsr Hs) as Hsmall. cbn [snd] in Hsmall.
    assert (Hsmall' : sr_small s').
    { destruct Hsmall as [A B]. destruct Hcfg as (_ & _ & C). split; [lia|lia]. }
    assert (Hsi' : sr_inv (c_now c) s').
    { assert (Hf : sm_find ch (c_sr (with_seq (with_sr c (sm_insert ch s' (c_sr c))) seq')) = Some s')
        by (cbn [with_seq with_sr c_sr]; apply sm_find_insert_same).
      apply (inv_find_sr _ _ _ Hi' Hf). }
    destruct (IH Hi') as [Hv2 Hsm2].
    { split; cbn [with_seq with_sr c_sr c_su]; [|exact Hsu]. apply Forall_sm_insert; assumption. }
    split; [|exact Hsm2]. apply Forall_app. split; [|exact Hv2].
    rewrite Forall_forall in *. intros p Hp. eapply rel_body_vok; eauto.
  - destruct (gather_step_unrel c ch s avail s' pk seq' avail1 Hi Hs Eg) as (Hi' & _).
    destruct (inv_find_su _ _ _ Hi Hs) as [Hsi _].
    pose proof (Forall_find _ _ _ _ Hsu Hs) as Hsmall. cbn [snd] in Hsmall.
    destruct (su_body_vok _ _ _ _ _ _ _ Hsi Hsmall Eg) as [Hv Hsmall'].
    destruct (IH Hi') as [Hv2 Hsm2].
    { split; cbn [with_seq with_su c_sr c_su]; [exact Hsr|]. apply Forall_sm_insert; assumption. }
    split; [|exact Hsm2]. apply Forall_app. split; assumption.
Qed.

(* under counters_small, no integer of a flush exceeds 2^62 - 1 *)
Lemma flush_varints_ok c c1 av pk :
  conn_inv c -> counters_small c -> gather_rel (c_order c) c (c_budget c) c1 av pk ->
  Forall ConnEncP.varints_ok (flush_pkts c1 pk).
Proof.
  intros Hi (Hseq & Hsr & Hsu) Hrel.
  destruct (gather_facts _ _ _ _ _ _ Hrel Hi) as (_ & Hseq1 & Hseqs & _).
  pose proof (gather_len _ _ _ _ _ _ Hrel Hi) as Hlen.
  destruct (gather_vok _ _ _ _ _ _ Hrel Hi (conj Hsr Hsu)) as [Hv _].
  unfold flush_pkt_bound in Hseq. fold (order_bound c (c_order c)) in Hseq.
  unfold flush_pkts. apply Forall_app. split.
  - pose proof (seqs_from_bounds _ _ Hseqs) as HB. rewrite Forall_forall in *.
    intros p Hp. apply varints_ok_split. split; [|auto]. specialize (HB p Hp). lia.
  - destruct (c_acks c1); cbn [ack_part]; constructor; [|constructor].
    cbn [ConnEncP.varints_ok]. lia.
Qed.
