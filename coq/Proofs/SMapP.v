(* SMapP.v - generic facts about the sorted association lists / sets of Channels.v
   (sm_find, sm_insert, sm_remove, sm_mem and the ss_ set functions), and small list/N helpers. *)
From RenetV Require Import Base Consts Varint Packet Channels RecvSpec.
Require Import Lia ZifyBool ZifyN ZifyNat FinFun.
Arguments N.add : simpl never.
Arguments N.sub : simpl never.
Arguments N.mul : simpl never.
Arguments N.div : simpl never.
Arguments N.modulo : simpl never.
Arguments N.eqb : simpl never.
Arguments N.ltb : simpl never.
Arguments N.leb : simpl never.
Open Scope N_scope.

(* ------------------------------------------------------------------ *)
(* len / sum / takeN / dropN *)

Lemma len_nil {A} : len (@nil A) = 0.
Proof. reflexivity. Qed.

Lemma len_cons {A} (x : A) l : len (x :: l) = len l + 1.
Proof. unfold len. cbn [length]. lia. Qed.

Lemma len_app {A} (a b : list A) : len (a ++ b) = len a + len b.
Proof. unfold len. rewrite app_length. lia. Qed.

Lemma len_0_nil {A} (l : list A) : len l = 0 -> l = [].
Proof. destruct l; [reflexivity|]. rewrite len_cons. lia. Qed.

Lemma len_takeN {A} n (l : list A) : len (takeN n l) = N.min n (len l).
Proof. unfold len, takeN. rewrite firstn_length. lia. Qed.

Lemma len_dropN {A} n (l : list A) : len (dropN n l) = len l - n.
Proof. unfold len, dropN. rewrite skipn_length. lia. Qed.

Lemma takeN_all {A} n (l : list A) : len l <= n -> takeN n l = l.
Proof. unfold len, takeN. intros. apply firstn_all2. lia. Qed.

Lemma takeN_dropN {A} n (l : list A) : takeN n l ++ dropN n l = l.
Proof. unfold takeN, dropN. apply firstn_skipn. Qed.

Lemma firstn_add {A} a b (l : list A) : firstn a l ++ firstn b (skipn a l) = firstn (a + b) l.
Proof.
  revert l. induction a as [|a IH]; intros l.
  - reflexivity.
  - destruct l as [|x l].
    + cbn [Nat.add firstn skipn app]. destruct b; reflexivity.
    + cbn [Nat.add firstn skipn app]. f_equal. apply IH.
Qed.

Lemma takeN_add {A} a b (l : list A) : takeN a l ++ takeN b (dropN a l) = takeN (a + b) l.
Proof.
  unfold takeN, dropN. rewrite firstn_add. f_equal. lia.
Qed.

Lemma sum_app a b : sum (a ++ b) = sum a + sum b.
Proof.
  unfold sum. induction a as [|x a IH]; cbn [app fold_right].
  - lia.
  - rewrite IH. lia.
Qed.

Lemma sum_cons x l : sum (x :: l) = x + sum l.
Proof. reflexivity. Qed.

Lemma sum_nil : sum [] = 0.
Proof. reflexivity. Qed.

Lemma nth_opt_eq {A} (l : list A) i : nth_opt l i = nth_error l i.
Proof.
  revert i. induction l as [|x l IH]; intros [|i]; cbn [nth_opt nth_error]; auto.
Qed.

Lemma nth_error_upd_same {A} (l : list A) i x : (i < length l)%nat -> nth_error (upd l i x) i = Some x.
Proof.
  revert i. induction l as [|y l IH]; intros [|i] H; cbn [length] in H; cbn [upd nth_error]; try lia.
  - reflexivity.
  - apply IH. lia.
Qed.

Lemma nth_error_upd_other {A} (l : list A) i j x : i <> j -> nth_error (upd l i x) j = nth_error l j.
Proof.
  revert i j. induction l as [|y l IH]; intros [|i] [|j] H; cbn [upd nth_error]; try reflexivity.
  - congruence.
  - apply IH. congruence.
Qed.

Lemma upd_length {A} (l : list A) i x : length (upd l i x) = length l.
Proof.
  revert i. induction l as [|y l IH]; intros [|i]; cbn [upd length]; auto.
Qed.

Lemma repeatN_length {A} (x : A) n : length (repeatN x n) = n.
Proof. induction n; cbn [repeatN length]; auto. Qed.

Lemma nth_error_repeatN {A} (x : A) n i y : nth_error (repeatN x n) i = Some y -> y = x.
Proof.
  revert i. induction n as [|n IH]; intros [|i]; cbn [repeatN nth_error]; try congruence.
  apply IH.
Qed.

(* ------------------------------------------------------------------ *)
(* iota *)

Lemma iota_length n : length (iota n) = N.to_nat n.
Proof. unfold iota. rewrite map_length, seq_length. reflexivity. Qed.

Lemma len_iota n : len (iota n) = n.
Proof. unfold len. rewrite iota_length. lia. Qed.

Lemma iota_succ n : iota (n + 1) = iota n ++ [n].
Proof.
  unfold iota. replace (N.to_nat (n + 1)) with (N.to_nat n + 1)%nat by lia.
  rewrite seq_app, map_app. cbn [seq map Nat.add]. do 2 f_equal. lia.
Qed.

Lemma iota_0 : iota 0 = [].
Proof. reflexivity. Qed.

Lemma in_iota n i : In i (iota n) <-> i < n.
Proof.
  unfold iota. rewrite in_map_iff. split.
  - intros (x & <- & Hx). apply in_seq in Hx. lia.
  - intros H. exists (N.to_nat i). split; [lia|]. apply in_seq. lia.
Qed.

Lemma NoDup_iota n : NoDup (iota n).
Proof.
  unfold iota. apply FinFun.Injective_map_NoDup.
  - intros a b H. lia.
  - apply seq_NoDup.
Qed.

(* ------------------------------------------------------------------ *)
(* asc *)

Lemma asc_cons k l : asc (k :: l) <-> Forall (fun k' => k < k') l /\ asc l.
Proof. reflexivity. Qed.

Lemma asc_NoDup l : asc l -> NoDup l.
Proof.
  induction l as [|k l IH]; intros H.
  - constructor.
  - destruct H as [H1 H2]. constructor; auto.
    intros Hin. rewrite Forall_forall in H1. specialize (H1 _ Hin). lia.
Qed.

(* ------------------------------------------------------------------ *)
Section SMapP.
  Context {V : Type}.
  Implicit Types (m : list (N * V)) (k : N) (v : V).

  Lemma sm_find_insert k k' v m :
    sm_find k (sm_insert k' v m) = if k =? k' then Some v else sm_find k m.
  Proof.
    induction m as [|[a b] t IH]; cbn [sm_insert sm_find].
    - reflexivity.
    - destruct (N.ltb_spec k' a).
      + reflexivity.
      + destruct (N.eqb_spec k' a).
        * subst. cbn [sm_find]. destruct (k =? a); reflexivity.
        * cbn [sm_find]. rewrite IH.
          destruct (N.eqb_spec k a), (N.eqb_spec k k'); try reflexivity. congruence.
  Qed.

  Lemma sm_find_insert_same k v m : sm_find k (sm_insert k v m) = Some v.
  Proof. rewrite sm_find_insert, N.eqb_refl. reflexivity. Qed.

  Lemma sm_find_insert_other k k' v m : k <> k' -> sm_find k (sm_insert k' v m) = sm_find k m.
  Proof. intros H. rewrite sm_find_insert. destruct (N.eqb_spec k k'); congruence. Qed.

  Lemma sm_mem_insert k k' v m : sm_mem k (sm_insert k' v m) = (k =? k') || sm_mem k m.
  Proof. unfold sm_mem. rewrite sm_find_insert. destruct (k =? k'); reflexivity. Qed.

  Lemma sm_find_in k v m : sm_find k m = Some v -> In (k, v) m.
  Proof.
    induction m as [|[a b] t IH]; cbn [sm_find]; [discriminate|].
    destruct (N.eqb_spec k a).
    - intros [= ->]. subst. left. reflexivity.
    - intros H. right. auto.
  Qed.

  Lemma sm_mem_in k m : sm_mem k m = true <-> In k (map fst m).
  Proof.
    unfold sm_mem. induction m as [|[a b] t IH]; cbn [sm_find map In fst].
    - split; [discriminate|tauto].
    - destruct (N.eqb_spec k a).
      + subst. split; auto.
      + rewrite IH. split; [auto|]. intros [?|?]; [congruence|auto].
  Qed.

  Lemma sm_mem_false_notin k m : sm_mem k m = false <-> ~ In k (map fst m).
  Proof.
    rewrite <- sm_mem_in. destruct (sm_mem k m); split; congruence.
  Qed.

  Lemma sm_find_none_mem k m : sm_find k m = None <-> sm_mem k m = false.
  Proof. unfold sm_mem. destruct (sm_find k m); split; congruence. Qed.

  Lemma sm_find_some_mem k v m : sm_find k m = Some v -> sm_mem k m = true.
  Proof. unfold sm_mem. intros ->. reflexivity. Qed.

  Lemma sm_mem_find k m : sm_mem k m = true -> exists v, sm_find k m = Some v.
  Proof. unfold sm_mem. destruct (sm_find k m); [eauto|discriminate]. Qed.

  Lemma sm_find_lt_none k m : Forall (fun k' => k < k') (map fst m) -> sm_find k m = None.
  Proof.
    intros H. apply sm_find_none_mem, sm_mem_false_notin. intros Hin.
    rewrite Forall_forall in H. specialize (H _ Hin). lia.
  Qed.

  Lemma sm_keys_insert x k v m : In x (map fst (sm_insert k v m)) <-> x = k \/ In x (map fst m).
  Proof.
    rewrite <- !sm_mem_in, sm_mem_insert. rewrite orb_true_iff, N.eqb_eq. reflexivity.
  Qed.

  Lemma sm_keys_remove x k m : In x (map fst (sm_remove k m)) -> In x (map fst m).
  Proof.
    induction m as [|[a b] t IH]; cbn [sm_remove map In fst]; [tauto|].
    destruct (k =? a); cbn [map In fst]; tauto.
  Qed.

  Lemma asc_sm_insert k v m : asc (map fst m) -> asc (map fst (sm_insert k v m)).
  Proof.
    induction m as [|[a b] t IH]; cbn [sm_insert map fst]; intros H.
    - cbn. auto.
    - destruct H as [H1 H2].
      destruct (N.ltb_spec k a).
      + cbn [map fst]. split; [|split; auto].
        constructor; [lia|]. eapply Forall_impl; [|exact H1]. cbn. intros; lia.
      + destruct (N.eqb_spec k a).
        * subst. cbn [map fst]. split; auto.
        * cbn [map fst]. split; [|auto].
          rewrite Forall_forall. intros x Hx. apply sm_keys_insert in Hx.
          destruct Hx as [-> |Hx]; [lia|]. rewrite Forall_forall in H1. auto.
  Qed.

  Lemma asc_sm_remove k m : asc (map fst m) -> asc (map fst (sm_remove k m)).
  Proof.
    induction m as [|[a b] t IH]; cbn [sm_remove map fst]; intros H; auto.
    destruct H as [H1 H2]. destruct (k =? a); auto.
    cbn [map fst]. split; auto.
    rewrite Forall_forall in *. intros x Hx. apply sm_keys_remove in Hx. auto.
  Qed.

  Lemma sm_find_remove k k' m :
    asc (map fst m) -> sm_find k (sm_remove k' m) = if k =? k' then None else sm_find k m.
  Proof.
    induction m as [|[a b] t IH]; cbn [sm_remove sm_find map fst]; intros H.
    - destruct (k =? k'); reflexivity.
    - destruct H as [H1 H2]. destruct (N.eqb_spec k' a).
      + subst. destruct (N.eqb_spec k a); [|reflexivity].
        subst. apply sm_find_lt_none. exact H1.
      + cbn [sm_find]. rewrite IH by auto.
        destruct (N.eqb_spec k a), (N.eqb_spec k k'); try reflexivity. congruence.
  Qed.

  Lemma sm_find_remove_other k k' m : k <> k' -> sm_find k (sm_remove k' m) = sm_find k m.
  Proof.
    intros Hne. induction m as [|[a b] t IH]; cbn [sm_remove sm_find]; [reflexivity|].
    destruct (N.eqb_spec k' a).
    - subst. destruct (N.eqb_spec k a); congruence.
    - cbn [sm_find]. rewrite IH. reflexivity.
  Qed.

  Lemma sm_mem_remove k k' m :
    asc (map fst m) -> sm_mem k (sm_remove k' m) = negb (k =? k') && sm_mem k m.
  Proof.
    intros H. unfold sm_mem. rewrite sm_find_remove by auto. destruct (k =? k'); reflexivity.
  Qed.

  Lemma sm_remove_none k m : sm_find k m = None -> sm_remove k m = m.
  Proof.
    induction m as [|[a b] t IH]; cbn [sm_remove sm_find]; [reflexivity|].
    destruct (k =? a); [discriminate|]. intros H. rewrite IH; auto.
  Qed.

  Lemma sm_remove_insert k v m : asc (map fst m) -> sm_remove k (sm_insert k v m) = sm_remove k m.
  Proof.
    induction m as [|[a b] t IH]; cbn [sm_insert sm_remove map fst]; intros H.
    - rewrite N.eqb_refl. reflexivity.
    - destruct H as [H1 H2]. destruct (N.ltb_spec k a).
      + cbn [sm_remove]. rewrite N.eqb_refl.
        destruct (N.eqb_spec k a); [lia|].
        rewrite sm_remove_none; [reflexivity|].
        apply sm_find_lt_none. eapply Forall_impl; [|exact H1]. cbn; intros; lia.
      + destruct (N.eqb_spec k a).
        * cbn [sm_remove]. rewrite N.eqb_refl. reflexivity.
        * cbn [sm_remove]. destruct (N.eqb_spec k a); [congruence|]. rewrite IH; auto.
  Qed.

  Lemma sm_insert_insert k v v' m : sm_insert k v' (sm_insert k v m) = sm_insert k v' m.
  Proof.
    induction m as [|[a b] t IH]; cbn [sm_insert].
    - destruct (N.ltb_spec k k); [lia|]. rewrite N.eqb_refl. reflexivity.
    - destruct (N.ltb_spec k a) as [Hl|Hl].
      + cbn [sm_insert]. destruct (N.ltb_spec k k); [lia|]. rewrite N.eqb_refl. reflexivity.
      + destruct (N.eqb_spec k a) as [He|He].
        * cbn [sm_insert]. destruct (N.ltb_spec k k); [lia|]. rewrite N.eqb_refl. reflexivity.
        * cbn [sm_insert]. destruct (N.ltb_spec k a); [lia|].
          destruct (N.eqb_spec k a); [congruence|]. rewrite IH. reflexivity.
  Qed.

  Lemma sm_cons_mem a (b : V) t : sm_mem a ((a, b) :: t) = true.
  Proof. unfold sm_mem. cbn [sm_find]. rewrite N.eqb_refl. reflexivity. Qed.

  Lemma sm_no_mem_nil m : (forall k, sm_mem k m = false) -> m = [].
  Proof.
    destruct m as [|[a b] t]; [reflexivity|]. intros H. specialize (H a).
    rewrite sm_cons_mem in H. discriminate.
  Qed.

  (* sums over the values, e.g. memory accounting *)
  Variable f : V -> N.
  Definition vsum m : N := sum (map (fun kv => f (snd kv)) m).
  Definition fopt (o : option V) : N := match o with Some v => f v | None => 0 end.

  Lemma vsum_insert k v m :
    asc (map fst m) -> vsum (sm_insert k v m) + fopt (sm_find k m) = vsum m + f v.
  Proof.
    unfold vsum.
    induction m as [|[a b] t IH]; cbn [sm_insert sm_find map fst snd]; intros H.
    - cbn [fopt]. rewrite !sum_cons, sum_nil. cbn [snd]. lia.
    - destruct H as [H1 H2]. destruct (N.ltb_spec k a).
      + destruct (N.eqb_spec k a); [lia|].
        rewrite sm_find_lt_none.
        2:{ eapply Forall_impl; [|exact H1]. cbn; intros; lia. }
        cbn [fopt map]. rewrite !sum_cons. cbn [snd]. lia.
      + destruct (N.eqb_spec k a).
        * cbn [fopt map]. rewrite !sum_cons. cbn [snd]. lia.
        * cbn [map]. rewrite !sum_cons. cbn [snd]. specialize (IH H2). lia.
  Qed.

  Lemma vsum_remove k m : vsum (sm_remove k m) + fopt (sm_find k m) = vsum m.
  Proof.
    unfold vsum.
    induction m as [|[a b] t IH]; cbn [sm_remove sm_find map].
    - cbn [fopt]. lia.
    - destruct (N.eqb_spec k a).
      + cbn [fopt]. rewrite sum_cons. cbn [snd]. lia.
      + cbn [map]. rewrite !sum_cons. cbn [snd]. lia.
  Qed.

  Lemma vsum_find_le k v m : sm_find k m = Some v -> f v <= vsum m.
  Proof.
    intros H. pose proof (vsum_remove k m) as E. rewrite H in E. cbn [fopt] in E. lia.
  Qed.

  (* predicates on entries *)
  Lemma Forall_sm_insert (P : N * V -> Prop) k v m :
    P (k, v) -> Forall P m -> Forall P (sm_insert k v m).
  Proof.
    intros Hp. induction m as [|[a b] t IH]; cbn [sm_insert]; intros H.
    - constructor; auto.
    - inversion H; subst. destruct (k <? a); [constructor; auto|].
      destruct (k =? a); constructor; auto.
  Qed.

  Lemma Forall_sm_remove (P : N * V -> Prop) k m : Forall P m -> Forall P (sm_remove k m).
  Proof.
    induction m as [|[a b] t IH]; cbn [sm_remove]; intros H; auto.
    inversion H; subst. destruct (k =? a); auto.
  Qed.

  Lemma Forall_sm_find (P : N * V -> Prop) k v m : Forall P m -> sm_find k m = Some v -> P (k, v).
  Proof.
    intros H Hf. apply sm_find_in in Hf. rewrite Forall_forall in H. auto.
  Qed.
End SMapP.

(* ------------------------------------------------------------------ *)
(* sets *)

Lemma ss_mem_in k s : ss_mem k s = true <-> In k s.
Proof.
  induction s as [|a t IH]; cbn [ss_mem In].
  - split; [discriminate|tauto].
  - rewrite orb_true_iff, N.eqb_eq, IH. split; intros [?|?]; auto.
Qed.

Lemma ss_mem_insert k k' s : ss_mem k (ss_insert k' s) = (k =? k') || ss_mem k s.
Proof.
  induction s as [|a t IH]; cbn [ss_insert ss_mem].
  - reflexivity.
  - destruct (N.ltb_spec k' a).
    + reflexivity.
    + destruct (N.eqb_spec k' a).
      * subst. cbn [ss_mem]. destruct (k =? a); reflexivity.
      * cbn [ss_mem]. rewrite IH. destruct (k =? a), (k =? k'); reflexivity.
Qed.

Lemma ss_in_remove x k s : In x (ss_remove k s) -> In x s.
Proof.
  induction s as [|a t IH]; cbn [ss_remove In]; [tauto|].
  destruct (k =? a); cbn [In]; tauto.
Qed.

Lemma asc_ss_insert k s : asc s -> asc (ss_insert k s).
Proof.
  induction s as [|a t IH]; cbn [ss_insert]; intros H.
  - cbn. auto.
  - destruct H as [H1 H2]. destruct (N.ltb_spec k a).
    + split; [|split; auto]. constructor; [lia|].
      eapply Forall_impl; [|exact H1]. cbn; intros; lia.
    + destruct (N.eqb_spec k a); [split; auto|].
      split; [|auto]. rewrite Forall_forall in *. intros x Hx.
      apply ss_mem_in in Hx. rewrite ss_mem_insert, orb_true_iff, N.eqb_eq, ss_mem_in in Hx.
      destruct Hx as [-> |Hx]; [lia|auto].
Qed.

Lemma asc_ss_remove k s : asc s -> asc (ss_remove k s).
Proof.
  induction s as [|a t IH]; cbn [ss_remove]; intros H; auto.
  destruct H as [H1 H2]. destruct (k =? a); auto.
  split; auto. rewrite Forall_forall in *. intros x Hx. apply ss_in_remove in Hx. auto.
Qed.

Lemma ss_mem_lt_false k s : Forall (fun k' => k < k') s -> ss_mem k s = false.
Proof.
  intros H. destruct (ss_mem k s) eqn:E; [|reflexivity].
  apply ss_mem_in in E. rewrite Forall_forall in H. specialize (H _ E). lia.
Qed.

Lemma ss_mem_remove k k' s : asc s -> ss_mem k (ss_remove k' s) = negb (k =? k') && ss_mem k s.
Proof.
  induction s as [|a t IH]; cbn [ss_remove ss_mem]; intros H.
  - rewrite andb_false_r. reflexivity.
  - destruct H as [H1 H2]. destruct (N.eqb_spec k' a).
    + subst. destruct (N.eqb_spec k a).
      * subst. cbn [negb andb]. apply ss_mem_lt_false. exact H1.
      * reflexivity.
    + cbn [ss_mem]. rewrite IH by auto.
      destruct (N.eqb_spec k a), (N.eqb_spec k k'); try reflexivity. congruence.
Qed.

Lemma ss_remove_length k s : ss_mem k s = true -> length s = S (length (ss_remove k s)).
Proof.
  induction s as [|a t IH]; cbn [ss_mem ss_remove length]; [discriminate|].
  destruct (k =? a); cbn [orb length]; auto.
Qed.
