(* SMapSendP.v - generic lemmas used by the send-side proofs:
   len / sum / nth_opt / upd, sorted association lists (sm_find / sm_insert / sm_remove)
   under the [keys_ascending] ordering of SendSpec.v. *)
From RenetV Require Import Base Consts Varint Packet Channels RecvSpec SendSpec.
Require Import Lia ZifyBool ZifyN ZifyNat.
Open Scope N_scope.

Arguments N.add : simpl never.
Arguments N.sub : simpl never.
Arguments N.mul : simpl never.
Arguments N.div : simpl never.
Arguments N.modulo : simpl never.
Arguments N.eqb : simpl never.
Arguments N.ltb : simpl never.
Arguments N.leb : simpl never.

(* ------------------------------------------------------------------ *)
(* len / sum *)
Lemma len_nil {A} : len (@nil A) = 0.
Proof. reflexivity. Qed.

Lemma len_cons {A} (x : A) l : len (x :: l) = len l + 1.
Proof. unfold len. cbn [length]. lia. Qed.

Lemma len_app {A} (l1 l2 : list A) : len (l1 ++ l2) = len l1 + len l2.
Proof. unfold len. rewrite app_length. lia. Qed.

Lemma len_one {A} (x : A) : len [x] = 1.
Proof. reflexivity. Qed.

Lemma len_map {A B} (f : A -> B) l : len (map f l) = len l.
Proof. unfold len. now rewrite map_length. Qed.

Lemma sum_nil : sum [] = 0.
Proof. reflexivity. Qed.

Lemma sum_cons x l : sum (x :: l) = x + sum l.
Proof. reflexivity. Qed.

Lemma sum_app l1 l2 : sum (l1 ++ l2) = sum l1 + sum l2.
Proof.
  induction l1 as [|x l1 IH]; [rewrite sum_nil; cbn [app]; lia|].
  cbn [app]. rewrite !sum_cons, IH. lia.
Qed.

Lemma sum_one x : sum [x] = x.
Proof. rewrite sum_cons, sum_nil. lia. Qed.

(* ------------------------------------------------------------------ *)
(* nth_opt / upd *)
Lemma nth_opt_some_lt {A} (l : list A) i x : nth_opt l i = Some x -> (i < length l)%nat.
Proof.
  revert i; induction l as [|y l IH]; intros [|i] H; cbn in *; try discriminate; try lia.
  apply IH in H. lia.
Qed.

Lemma nth_opt_lt {A} (l : list A) i : (i < length l)%nat -> exists x, nth_opt l i = Some x.
Proof.
  revert i; induction l as [|y l IH]; intros [|i] H; cbn in *; try lia.
  - now exists y.
  - apply IH. lia.
Qed.

Lemma nth_opt_none {A} (l : list A) i : (length l <= i)%nat -> nth_opt l i = None.
Proof.
  revert i; induction l as [|y l IH]; intros [|i] H; cbn in *; try lia; auto.
  apply IH. lia.
Qed.

Lemma nth_opt_in {A} (l : list A) i x : nth_opt l i = Some x -> In x l.
Proof.
  revert i; induction l as [|y l IH]; intros [|i] H; cbn in *; try discriminate.
  - left. congruence.
  - right. eauto.
Qed.

Lemma upd_length {A} (l : list A) i x : length (upd l i x) = length l.
Proof.
  revert i; induction l as [|y l IH]; intros [|i]; cbn; auto.
Qed.

Lemma nth_opt_upd_same {A} (l : list A) i x : (i < length l)%nat -> nth_opt (upd l i x) i = Some x.
Proof.
  revert i; induction l as [|y l IH]; intros [|i] H; cbn in *; try lia; auto.
  apply IH. lia.
Qed.

Lemma nth_opt_upd_other {A} (l : list A) i j x : i <> j -> nth_opt (upd l i x) j = nth_opt l j.
Proof.
  revert i j; induction l as [|y l IH]; intros [|i] [|j] H; cbn; auto; try congruence.
Qed.

Lemma Forall_upd {A} (P : A -> Prop) l i x : P x -> Forall P l -> Forall P (upd l i x).
Proof.
  intros Hx. revert i; induction l as [|y l IH]; intros [|i] H; cbn; auto;
    inversion H; subst; constructor; auto.
Qed.

Lemma Forall_nth_opt {A} (P : A -> Prop) l i x : Forall P l -> nth_opt l i = Some x -> P x.
Proof.
  intros H E. apply nth_opt_in in E. rewrite Forall_forall in H. auto.
Qed.

Lemma repeatN_length {A} (x : A) n : length (repeatN x n) = n.
Proof. induction n; cbn; auto. Qed.

Lemma Forall_repeatN {A} (P : A -> Prop) x n : P x -> Forall P (repeatN x n).
Proof. intros; induction n; cbn; auto. Qed.

Lemma nth_opt_repeatN {A} (x : A) n i : (i < n)%nat -> nth_opt (repeatN x n) i = Some x.
Proof.
  revert i; induction n; intros [|i] H; cbn; try lia; auto. apply IHn. lia.
Qed.

(* number of [true] flags *)
Definition count_true (l : list bool) : N := len (filter (fun b => b) l).

Lemma count_true_nil : count_true [] = 0.
Proof. reflexivity. Qed.

Lemma count_true_cons b l : count_true (b :: l) = (if b then 1 else 0) + count_true l.
Proof. unfold count_true. cbn [filter]. destruct b; [rewrite len_cons|]; lia. Qed.

Lemma count_true_le l : count_true l <= len l.
Proof.
  induction l as [|b l IH]; [rewrite count_true_nil; lia|].
  rewrite count_true_cons, len_cons. destruct b; lia.
Qed.

Lemma count_true_repeat_false n : count_true (repeatN false n) = 0.
Proof. induction n; cbn [repeatN]; [reflexivity|]. rewrite count_true_cons. lia. Qed.

Lemma count_true_upd l i :
  nth_opt l i = Some false -> count_true (upd l i true) = count_true l + 1.
Proof.
  revert i; induction l as [|b l IH]; intros [|i] H; cbn in H; try discriminate.
  - inversion H; subst. cbn [upd]. rewrite !count_true_cons. lia.
  - cbn [upd]. rewrite !count_true_cons, (IH _ H). lia.
Qed.

(* all flags set iff the count is the length *)
Lemma count_true_full l :
  count_true l = len l -> forall i, (i < length l)%nat -> nth_opt l i = Some true.
Proof.
  induction l as [|b l IH]; intros E i Hi; cbn in Hi; [lia|].
  rewrite count_true_cons, len_cons in E. pose proof (count_true_le l).
  destruct b; [|lia].
  destruct i as [|i]; [reflexivity|]. cbn. apply IH; lia.
Qed.

Lemma count_true_not_full l :
  count_true l < len l -> exists i, nth_opt l i = Some false.
Proof.
  induction l as [|b l IH]; intros E.
  - cbv in E. discriminate E.
  - rewrite count_true_cons, len_cons in E. destruct b.
    + destruct IH as [i Hi]; [lia|]. exists (S i). exact Hi.
    + exists O. reflexivity.
Qed.

(* ------------------------------------------------------------------ *)
(* keys_ascending *)
Lemma keys_asc_weaken lo lo' ks : lo' <= lo -> keys_ascending lo ks -> keys_ascending lo' ks.
Proof.
  destruct ks as [|k t]; cbn; auto. intros H [H1 H2]. split; [lia|auto].
Qed.

Lemma keys_asc_tail lo k ks : keys_ascending lo (k :: ks) -> keys_ascending lo ks.
Proof.
  cbn. intros [H1 H2]. eapply keys_asc_weaken; [|exact H2]. lia.
Qed.

Lemma keys_asc_lb lo ks : keys_ascending lo ks -> Forall (fun k => lo <= k) ks.
Proof.
  revert lo; induction ks as [|k t IH]; intros lo H; constructor.
  - cbn in H. tauto.
  - apply IH. eapply keys_asc_tail. exact H.
Qed.

Lemma keys_asc_nodup lo ks : keys_ascending lo ks -> NoDup ks.
Proof.
  revert lo; induction ks as [|k t IH]; intros lo H; constructor.
  - cbn in H. destruct H as [_ H]. apply keys_asc_lb in H. rewrite Forall_forall in H.
    intros Hin. apply H in Hin. lia.
  - cbn in H. destruct H as [_ H]. eauto.
Qed.

Section SMapLemmas.
  Context {V : Type}.
  Implicit Types (m : list (N * V)) (k lo : N) (v : V).

  Lemma sm_find_below lo m k :
    keys_ascending lo (map fst m) -> k < lo -> sm_find k m = None.
  Proof.
    revert lo; induction m as [|[k' v'] t IH]; intros lo H Hk; cbn [sm_find]; auto.
    cbn in H. destruct H as [H1 H2].
    destruct (N.eqb_spec k k'); [lia|]. eapply IH; [exact H2|lia].
  Qed.

  Lemma sm_find_in lo m k v :
    keys_ascending lo (map fst m) -> In (k, v) m -> sm_find k m = Some v.
  Proof.
    revert lo; induction m as [|[k' v'] t IH]; intros lo H Hin; [inversion Hin|].
    cbn in H. destruct H as [H1 H2]. cbn [sm_find].
    destruct Hin as [E|Hin].
    - inversion E; subst. now rewrite N.eqb_refl.
    - destruct (N.eqb_spec k k') as [->|_]; [|eauto].
      apply keys_asc_lb in H2. rewrite Forall_forall in H2.
      assert (In k' (map fst t)) by (apply (in_map fst _ _ Hin)).
      apply H2 in H. lia.
  Qed.

  Lemma sm_find_some_in m k v : sm_find k m = Some v -> In (k, v) m.
  Proof.
    induction m as [|[k' v'] t IH]; cbn [sm_find]; [discriminate|].
    destruct (N.eqb_spec k k') as [->|_]; intros H.
    - inversion H; subst. now left.
    - right; auto.
  Qed.

  Lemma sm_find_none_notin m k : sm_find k m = None -> ~ In k (map fst m).
  Proof.
    induction m as [|[k' v'] t IH]; cbn [sm_find map fst]; [tauto|].
    destruct (N.eqb_spec k k') as [->|Hne]; [discriminate|].
    intros H [E|Hin]; [cbn in E; congruence|]. now apply IH.
  Qed.

  Lemma sm_find_insert_same m k v : sm_find k (sm_insert k v m) = Some v.
  Proof.
    induction m as [|[k' v'] t IH]; cbn [sm_insert sm_find].
    - now rewrite N.eqb_refl.
    - destruct (N.ltb_spec k k'); cbn [sm_find]; [now rewrite N.eqb_refl|].
      destruct (N.eqb_spec k k'); cbn [sm_find]; [now rewrite N.eqb_refl|].
      destruct (N.eqb_spec k k'); [contradiction|]. exact IH.
  Qed.

  Lemma sm_find_insert_other m k j v : j <> k -> sm_find j (sm_insert k v m) = sm_find j m.
  Proof.
    intros Hne. induction m as [|[k' v'] t IH]; cbn [sm_insert sm_find].
    - destruct (N.eqb_spec j k); [contradiction|reflexivity].
    - destruct (N.ltb_spec k k'); cbn [sm_find].
      { destruct (N.eqb_spec j k); [contradiction|reflexivity]. }
      destruct (N.eqb_spec k k') as [->|_]; cbn [sm_find].
      { destruct (N.eqb_spec j k'); [contradiction|reflexivity]. }
      destruct (N.eqb_spec j k'); [reflexivity|exact IH].
  Qed.

  Lemma sm_find_remove_other m k j : j <> k -> sm_find j (sm_remove k m) = sm_find j m.
  Proof.
    intros Hne. induction m as [|[k' v'] t IH]; cbn [sm_remove sm_find]; auto.
    destruct (N.eqb_spec k k') as [->|_].
    - destruct (N.eqb_spec j k'); [contradiction|reflexivity].
    - cbn [sm_find]. destruct (N.eqb_spec j k'); [reflexivity|exact IH].
  Qed.

  Lemma sm_find_remove_same lo m k :
    keys_ascending lo (map fst m) -> sm_find k (sm_remove k m) = None.
  Proof.
    revert lo; induction m as [|[k' v'] t IH]; intros lo H; cbn [sm_remove sm_find]; auto.
    cbn in H. destruct H as [H1 H2].
    destruct (N.eqb_spec k k') as [->|Hne].
    - eapply sm_find_below; [exact H2|lia].
    - cbn [sm_find]. destruct (N.eqb_spec k k'); [contradiction|eauto].
  Qed.

  Lemma sm_remove_absent m k : sm_find k m = None -> sm_remove k m = m.
  Proof.
    induction m as [|[k' v'] t IH]; cbn [sm_remove sm_find]; auto.
    destruct (N.eqb_spec k k'); [discriminate|]. intros H. now rewrite IH.
  Qed.

  (* inserting a key above all present keys appends *)
  Lemma sm_insert_last m k v :
    Forall (fun kv => fst kv < k) m -> sm_insert k v m = m ++ [(k, v)].
  Proof.
    induction m as [|[k' v'] t IH]; intros H; cbn [sm_insert app]; auto.
    inversion H; subst. cbn [fst] in *.
    destruct (N.ltb_spec k k'); [lia|]. destruct (N.eqb_spec k k'); [lia|].
    now rewrite IH.
  Qed.

  Lemma keys_asc_app_last lo m k v :
    keys_ascending lo (map fst m) -> Forall (fun kv => fst kv < k) m -> lo <= k ->
    keys_ascending lo (map fst (m ++ [(k, v)])).
  Proof.
    revert lo; induction m as [|[k' v'] t IH]; intros lo H HF Hlo; cbn [app map fst keys_ascending].
    - split; [exact Hlo|exact I].
    - cbn in H. destruct H as [H1 H2]. inversion HF; subst. cbn [fst] in *.
      split; [exact H1|]. apply IH; auto. lia.
  Qed.

  (* replacing the value of a present key keeps the key list *)
  Lemma sm_insert_keys_same lo m k v v0 :
    keys_ascending lo (map fst m) -> sm_find k m = Some v0 ->
    map fst (sm_insert k v m) = map fst m.
  Proof.
    revert lo; induction m as [|[k' v'] t IH]; intros lo H E; cbn [sm_find] in E; [discriminate|].
    cbn in H. destruct H as [H1 H2]. cbn [sm_insert].
    destruct (N.eqb_spec k k') as [->|Hne].
    - destruct (N.ltb_spec k' k'); [lia|]. reflexivity.
    - destruct (N.ltb_spec k k').
      + rewrite (sm_find_below (k' + 1) t k) in E; [discriminate|exact H2|lia].
      + cbn [map fst]. f_equal. eauto.
  Qed.

  Lemma keys_asc_remove lo m k :
    keys_ascending lo (map fst m) -> keys_ascending lo (map fst (sm_remove k m)).
  Proof.
    revert lo; induction m as [|[k' v'] t IH]; intros lo H; cbn [sm_remove]; auto.
    destruct (N.eqb_spec k k') as [->|Hne].
    - cbn [map fst] in H. eapply keys_asc_tail. exact H.
    - cbn in H. destruct H as [H1 H2]. cbn [map fst keys_ascending]. split; auto.
  Qed.

  Lemma Forall_sm_insert (P : N * V -> Prop) m k v :
    P (k, v) -> Forall P m -> Forall P (sm_insert k v m).
  Proof.
    intros Hk. induction m as [|[k' v'] t IH]; intros H; cbn [sm_insert].
    - constructor; auto.
    - inversion H; subst.
      destruct (N.ltb_spec k k'); [constructor; auto|].
      destruct (N.eqb_spec k k'); constructor; auto.
  Qed.

  Lemma Forall_sm_remove (P : N * V -> Prop) m k :
    Forall P m -> Forall P (sm_remove k m).
  Proof.
    induction m as [|[k' v'] t IH]; intros H; cbn [sm_remove]; auto.
    inversion H; subst. destruct (N.eqb_spec k k'); auto.
  Qed.

  Lemma sum_sm_remove (f : N * V -> N) m k v0 :
    sm_find k m = Some v0 ->
    sum (map f (sm_remove k m)) + f (k, v0) = sum (map f m).
  Proof.
    induction m as [|[k' v'] t IH]; cbn [sm_find sm_remove]; [discriminate|].
    destruct (N.eqb_spec k k') as [->|Hne]; intros E.
    - inversion E; subst. cbn [map]. rewrite sum_cons. lia.
    - cbn [map]. rewrite !sum_cons. specialize (IH E). lia.
  Qed.

  Lemma sum_sm_insert_same (f : N * V -> N) lo m k v v0 :
    keys_ascending lo (map fst m) -> sm_find k m = Some v0 ->
    sum (map f (sm_insert k v m)) + f (k, v0) = sum (map f m) + f (k, v).
  Proof.
    revert lo; induction m as [|[k' v'] t IH]; intros lo H E; cbn [sm_find] in E; [discriminate|].
    cbn in H. destruct H as [H1 H2]. cbn [sm_insert].
    destruct (N.eqb_spec k k') as [->|Hne].
    - destruct (N.ltb_spec k' k'); [lia|]. inversion E; subst.
      cbn [map]. rewrite !sum_cons. lia.
    - destruct (N.ltb_spec k k').
      + rewrite (sm_find_below (k' + 1) t k) in E; [discriminate|exact H2|lia].
      + cbn [map]. rewrite !sum_cons. specialize (IH _ H2 E). lia.
  Qed.

  Lemma sm_find_Forall (P : N * V -> Prop) m k v :
    Forall P m -> sm_find k m = Some v -> P (k, v).
  Proof.
    intros H E. apply sm_find_some_in in E. rewrite Forall_forall in H. auto.
  Qed.

  Lemma sm_find_app_last m k v j :
    sm_find j (m ++ [(k, v)]) =
    match sm_find j m with Some x => Some x | None => if j =? k then Some v else None end.
  Proof.
    induction m as [|[k' v'] t IH]; cbn [app sm_find]; auto.
    destruct (N.eqb_spec j k'); auto.
  Qed.
End SMapLemmas.

(* ------------------------------------------------------------------ *)
(* arithmetic shared by the two send-channel proofs: SLICE_SIZE, div_ceil /
   num_slices_of, slice ranges and payload lengths, varint_len, checked subtraction *)
(* the only places where the value of SLICE_SIZE is looked at *)
Lemma SS_pos : 0 < SLICE_SIZE.
Proof. reflexivity. Qed.

Lemma SS_value : SLICE_SIZE = 1200.
Proof. reflexivity. Qed.

Local Opaque SLICE_SIZE.

Lemma sub_chk_ok {E} site a b : b <= a -> @sub_chk E site a b = Ok (a - b).
Proof. intros H. unfold sub_chk. destruct (N.leb_spec b a); [reflexivity|lia]. Qed.

Lemma varint_len_bounds v : 1 <= varint_len v <= 8.
Proof.
  unfold varint_len.
  destruct (v <=? 63); [lia|]. destruct (v <=? 16383); [lia|].
  destruct (v <=? 1073741823); lia.
Qed.

(* ---------- div_ceil ---------- *)
Lemma div_ceil_spec a b :
  0 < b -> 0 < a ->
  1 <= div_ceil a b /\ (div_ceil a b - 1) * b < a /\ a <= div_ceil a b * b.
Proof.
  intros Hb Ha. unfold div_ceil.
  pose proof (N.div_mod (a + b - 1) b ltac:(lia)) as E.
  pose proof (N.mod_lt (a + b - 1) b ltac:(lia)) as L.
  set (q := (a + b - 1) / b) in *. set (r := (a + b - 1) mod b) in *.
  assert (1 <= q) by nia.
  repeat split; nia.
Qed.

Lemma div_ceil_ge2 a b : 0 < b -> b < a -> 2 <= div_ceil a b.
Proof.
  intros Hb Ha. destruct (div_ceil_spec a b Hb ltac:(lia)) as (H1 & H2 & H3). nia.
Qed.

(* ---------- takeN / dropN ---------- *)
Lemma len_takeN {A} n (l : list A) : len (takeN n l) = N.min n (len l).
Proof. unfold len, takeN. rewrite firstn_length. lia. Qed.

Lemma len_dropN {A} n (l : list A) : len (dropN n l) = len l - n.
Proof. unfold len, dropN. rewrite skipn_length. lia. Qed.

(* ---------- slices ---------- *)
(* the byte range of slice i of a message of L bytes cut into n slices *)
Definition sl_start (i : N) : N := i * SLICE_SIZE.
Definition sl_end (L n i : N) : N := if i =? n - 1 then L else (i + 1) * SLICE_SIZE.

Lemma slice_range L i :
  0 < L -> i < div_ceil L SLICE_SIZE ->
  sl_start i < sl_end L (div_ceil L SLICE_SIZE) i /\
  sl_end L (div_ceil L SLICE_SIZE) i <= L /\
  sl_end L (div_ceil L SLICE_SIZE) i - sl_start i <= SLICE_SIZE.
Proof.
  intros HL Hi. pose proof SS_pos.
  destruct (div_ceil_spec L SLICE_SIZE SS_pos HL) as (H1 & H2 & H3).
  unfold sl_start, sl_end. set (n := div_ceil L SLICE_SIZE) in *.
  destruct (N.eqb_spec i (n - 1)) as [->|Hne].
  - repeat split; nia.
  - repeat split; nia.
Qed.

Definition plen (m : list N) (i : N) : N := len (slice_payload m i).

Lemma plen_eq m i :
  0 < len m -> i < num_slices_of m ->
  plen m i = sl_end (len m) (num_slices_of m) i - sl_start i.
Proof.
  intros HL Hi. unfold plen, slice_payload.
  destruct (slice_range (len m) i HL Hi) as (H1 & H2 & H3).
  fold (num_slices_of m) in *.
  change (i * SLICE_SIZE) with (sl_start i).
  change (if i =? num_slices_of m - 1 then len m else (i + 1) * SLICE_SIZE)
    with (sl_end (len m) (num_slices_of m) i).
  rewrite len_takeN, len_dropN. lia.
Qed.

Lemma plen_bounds m i :
  0 < len m -> i < num_slices_of m -> 1 <= plen m i <= SLICE_SIZE.
Proof.
  intros HL Hi. rewrite (plen_eq m i HL Hi).
  destruct (slice_range (len m) i HL Hi) as (H1 & H2 & H3).
  fold (num_slices_of m) in *. lia.
Qed.

(* the range test of message.slice(start..end) never fires for a valid index *)
Lemma slice_range_test m i :
  0 < len m -> i < num_slices_of m ->
  let s := i * SLICE_SIZE in
  let e := if i =? num_slices_of m - 1 then len m else (i + 1) * SLICE_SIZE in
  (e <? s) || (len m <? e) = false.
Proof.
  intros HL Hi s e.
  destruct (slice_range (len m) i HL Hi) as (H1 & H2 & H3).
  fold (num_slices_of m) in *. unfold sl_start, sl_end in *. fold s e in H1, H2, H3.
  destruct (N.ltb_spec e s); [lia|]. destruct (N.ltb_spec (len m) e); [lia|]. reflexivity.
Qed.

(* all slices together are the whole message *)
Lemma iota_succ n : iota (n + 1) = iota n ++ [n].
Proof.
  unfold iota. replace (N.to_nat (n + 1)) with (N.to_nat n + 1)%nat by lia.
  rewrite seq_app, map_app. cbn [seq map Nat.add]. now rewrite N2Nat.id.
Qed.

Lemma in_iota n i : In i (iota n) <-> i < n.
Proof.
  unfold iota. rewrite in_map_iff. split.
  - intros (x & <- & Hx). apply in_seq in Hx. lia.
  - intros H. exists (N.to_nat i). split; [lia|]. apply in_seq. lia.
Qed.

Lemma len_iota n : len (iota n) = n.
Proof. unfold iota, len. rewrite map_length, seq_length. lia. Qed.

Lemma sum_plen_prefix m k :
  0 < len m -> k < num_slices_of m -> sum (map (plen m) (iota k)) = k * SLICE_SIZE.
Proof.
  intros HL. induction k as [|k IH] using N.peano_ind; intros Hk.
  - reflexivity.
  - rewrite <- N.add_1_r in *. rewrite iota_succ, map_app, sum_app, IH by lia.
    cbn [map]. rewrite sum_one, plen_eq by lia.
    unfold sl_end, sl_start. destruct (N.eqb_spec k (num_slices_of m - 1)); lia.
Qed.

Lemma sum_plen_all m :
  0 < len m -> sum (map (plen m) (iota (num_slices_of m))) = len m.
Proof.
  intros HL.
  destruct (div_ceil_spec (len m) SLICE_SIZE SS_pos HL) as (H1 & H2 & H3).
  fold (num_slices_of m) in *.
  replace (num_slices_of m) with ((num_slices_of m - 1) + 1) at 1 by lia.
  rewrite iota_succ, map_app, sum_app, sum_plen_prefix by lia.
  cbn [map]. rewrite sum_one, plen_eq by lia.
  unfold sl_end, sl_start. rewrite N.eqb_refl. lia.
Qed.

(* sum over a duplicate-free sub-collection is bounded by the sum over the collection *)
Lemma sum_nodup_incl {A} (f : A -> N) (l l' : list A) :
  NoDup l -> incl l l' -> sum (map f l) <= sum (map f l').
Proof.
  revert l'. induction l as [|a l IH]; intros l' ND HI.
  - cbn [map]. rewrite sum_nil. lia.
  - inversion ND; subst.
    assert (Ha : In a l') by (apply HI; now left).
    apply in_split in Ha. destruct Ha as (l1 & l2 & ->).
    assert (HI' : incl l (l1 ++ l2)).
    { intros x Hx. assert (Hx' : In x (l1 ++ a :: l2)) by (apply HI; now right).
      apply in_app_or in Hx'. apply in_or_app.
      destruct Hx' as [?|[->|?]]; auto. contradiction. }
    specialize (IH _ H2 HI').
    cbn [map]. rewrite map_app in *. cbn [map]. rewrite sum_app in *. rewrite !sum_cons. lia.
Qed.

Lemma sum_plen_sent m sent :
  0 < len m -> NoDup sent -> (forall i, In i sent -> i < num_slices_of m) ->
  sum (map (plen m) sent) <= len m.
Proof.
  intros HL ND Hlt. rewrite <- (sum_plen_all m HL).
  apply sum_nodup_incl; auto. intros i Hi. apply in_iota. auto.
Qed.

(* rotation (start + j) mod num is injective on j < num *)
Lemma rot_inj num start j1 j2 :
  0 < num -> j1 < num -> j2 < num ->
  (start + j1) mod num = (start + j2) mod num -> j1 = j2.
Proof.
  intros Hn H1 H2 E.
  pose proof (N.div_mod (start + j1) num ltac:(lia)) as E1.
  pose proof (N.div_mod (start + j2) num ltac:(lia)) as E2.
  pose proof (N.mod_lt (start + j1) num ltac:(lia)) as L1.
  rewrite E in E1.
  set (q1 := (start + j1) / num) in *. set (q2 := (start + j2) / num) in *.
  set (r := (start + j2) mod num) in *.
  assert (q1 = q2) by nia. subst q1. nia.
Qed.

(* ------------------------------------------------------------------ *)
(* packet lists *)
Lemma seqs_from_app s p q : seqs_from s (p ++ q) <-> seqs_from s p /\ seqs_from (s + len p) q.
Proof.
  revert s; induction p as [|x p IH]; intros s; cbn [app seqs_from].
  - rewrite len_nil, N.add_0_r. tauto.
  - rewrite IH, len_cons. replace (s + 1 + len p) with (s + (len p + 1)) by lia. tauto.
Qed.

Lemma payload_total_app p q : payload_total (p ++ q) = payload_total p + payload_total q.
Proof. unfold payload_total. now rewrite map_app, sum_app. Qed.

Lemma msgs_bytes_app p q : msgs_bytes (p ++ q) = msgs_bytes p + msgs_bytes q.
Proof. unfold msgs_bytes. now rewrite map_app, sum_app. Qed.

