(* SendUnrelP.v - SendChannelUnreliable: invariant, send, get_packets_to_send against an
   explicit specification function, sizes. *)
From RenetV Require Import Base Consts Varint Packet Channels RecvSpec SendSpec SMapSendP.
Require Import Lia ZifyBool ZifyN ZifyNat.
Open Scope N_scope.

Arguments N.add : simpl never.
Arguments N.sub : simpl never.
Arguments N.mul : simpl never.
Arguments N.div : simpl never.
Arguments N.modulo : simpl never.
Arguments N.eqb : simpl never.
Arguments N.ltb : simpl never.
Arguments N.leb : simpl never.
Local Opaque SLICE_SIZE.

(* ================================================================== *)
(* U1 *)
Theorem su_inv_init : forall ch max, su_inv (send_unrel_new ch max).
Proof. intros. unfold su_inv, send_unrel_new; cbn. split; [reflexivity|lia]. Qed.

(* a message over the memory budget is dropped whole: the state does not change *)
Theorem su_send_safe : forall s m, su_inv s ->
  su_inv (su_send s m) /\
  (if su_max s <? su_mem s + len m
   then su_send s m = s
   else su_queue (su_send s m) = su_queue s ++ [m] /\ su_mem (su_send s m) = su_mem s + len m /\
        su_sliced_id (su_send s m) = su_sliced_id s /\ su_max (su_send s m) = su_max s /\
        su_ch (su_send s m) = su_ch s).
Proof.
  intros s m [H1 H2]. unfold su_send.
  destruct (N.ltb_spec (su_max s) (su_mem s + len m)) as [Hfull|Hfit].
  - split; [split; assumption|reflexivity].
  - split; [|cbn; auto].
    unfold su_inv; cbn [su_mem su_queue su_max]. split; [|lia].
    rewrite map_app, sum_app. cbn [map]. rewrite sum_one. lia.
Qed.

(* ================================================================== *)
(* U3: the specification *)

(* budget decisions, in queue order: a message is dropped iff it exceeds what is left at its turn *)
Fixpoint su_kept (avail : N) (q : list (list N)) : list (list N) :=
  match q with
  | [] => []
  | m :: t => if avail <? len m then su_kept avail t else m :: su_kept (avail - len m) t
  end.

Fixpoint su_left (avail : N) (q : list (list N)) : N :=
  match q with
  | [] => avail
  | m :: t => if avail <? len m then su_left avail t else su_left (avail - len m) t
  end.

Definition is_large (m : list N) : bool := SLICE_SIZE <? len m.

(* the slice packets of one message: slices idxs of m, consecutive sequence numbers *)
Fixpoint uslices (ch sid : N) (m : list N) (seq : N) (idxs : list N) : list packet :=
  match idxs with
  | [] => []
  | i :: t => UnreliableSlice seq ch (slice_of m sid i) :: uslices ch sid m (seq + 1) t
  end.

Definition unrel_slice_pkts (ch sid : N) (m : list N) (seq : N) : list packet :=
  uslices ch sid m seq (iota (num_slices_of m)).

(* packing of the kept messages; [cur] = small messages waiting for the next SmallUnreliable packet *)
Fixpoint su_pack (ch : N) (kept : list (list N)) (sid seq : N) (cur : list (list N)) : list packet :=
  match kept with
  | [] => match cur with [] => [] | _ => [SmallUnreliable seq ch cur] end
  | m :: t =>
      if is_large m then
        unrel_slice_pkts ch sid m seq ++ su_pack ch t (sid + 1) (seq + num_slices_of m) cur
      else if SLICE_SIZE <? sum (map unrel_entry_size cur) + unrel_entry_size m then
        SmallUnreliable seq ch cur :: su_pack ch t sid (seq + 1) [m]
      else su_pack ch t sid seq (cur ++ [m])
  end.

Definition su_spec (s : send_unrel) (seq avail : N) : send_unrel * list packet * N * N :=
  let kept := su_kept avail (su_queue s) in
  let pkts := su_pack (su_ch s) kept (su_sliced_id s) seq [] in
  ({| su_ch := su_ch s; su_queue := [];
      su_sliced_id := su_sliced_id s + len (filter is_large kept);
      su_max := su_max s; su_mem := 0 |},
   pkts, seq + len pkts, su_left avail (su_queue s)).

(* ---------- the slice loop ---------- *)
Definition range (i : N) (fuel : nat) : list N := map N.of_nat (seq (N.to_nat i) fuel).

Lemma range_S i f : range i (S f) = i :: range (i + 1) f.
Proof.
  unfold range. cbn [List.seq map]. rewrite N2Nat.id. f_equal.
  replace (N.to_nat (i + 1)) with (S (N.to_nat i)) by lia. reflexivity.
Qed.

Lemma range_iota n : range 0 (N.to_nat n) = iota n.
Proof. reflexivity. Qed.

Lemma len_uslices ch sid m seq idxs : len (uslices ch sid m seq idxs) = len idxs.
Proof.
  revert seq; induction idxs as [|i t IH]; intros seq; cbn [uslices]; [reflexivity|].
  now rewrite !len_cons, IH.
Qed.

Lemma unrel_slices_spec ch sid m (Hm : 0 < len m) : forall fuel i sq acc,
  N.of_nat fuel + i = num_slices_of m ->
  unrel_slices fuel i ch sid (num_slices_of m) m sq acc =
    Ok (acc ++ uslices ch sid m sq (range i fuel), sq + N.of_nat fuel).
Proof.
  induction fuel as [|f IH]; intros i sq acc Hk.
  - cbn [unrel_slices range List.seq map uslices]. rewrite app_nil_r, N.add_0_r. reflexivity.
  - cbn [unrel_slices].
    pose proof (slice_range_test m i Hm ltac:(lia)) as Hrt. cbv zeta in Hrt. rewrite Hrt.
    rewrite IH by lia. rewrite range_S. cbn [uslices]. rewrite <- app_assoc. cbn [app].
    do 2 f_equal. lia.
Qed.

(* ---------- the queue loop ---------- *)
Definition fin_pkts (ch : N) (a : uacc) : list packet :=
  match u_small a with [] => u_pkts a | sm => u_pkts a ++ [SmallUnreliable (u_seq a) ch sm] end.
Definition fin_seq (a : uacc) : N :=
  match u_small a with [] => u_seq a | _ => u_seq a + 1 end.

Lemma su_loop_spec ch : forall q a,
  sum (map len q) <= u_mem a ->
  u_small_bytes a = sum (map unrel_entry_size (u_small a)) ->
  exists a',
    su_loop ch q a = Ok a' /\
    fin_pkts ch a' = u_pkts a ++ su_pack ch (su_kept (u_avail a) q) (u_sliced_id a) (u_seq a) (u_small a) /\
    fin_seq a' = u_seq a + len (su_pack ch (su_kept (u_avail a) q) (u_sliced_id a) (u_seq a) (u_small a)) /\
    u_avail a' = su_left (u_avail a) q /\
    u_sliced_id a' = u_sliced_id a + len (filter is_large (su_kept (u_avail a) q)) /\
    u_mem a' = u_mem a - sum (map len q).
Proof.
  induction q as [|m t IH]; intros a Hmem Hbytes.
  - exists a. cbn [su_loop su_kept su_left su_pack filter map]. split; [reflexivity|].
    unfold fin_pkts, fin_seq. rewrite sum_nil.
    destruct (u_small a); rewrite ?app_nil_r; repeat split; try reflexivity;
      unfold len; cbn [length]; lia.
  - cbn [map] in Hmem. rewrite sum_cons in Hmem.
    cbn [su_loop su_kept su_left]. rewrite sub_chk_ok by lia. cbn [bind].
    cbn [map]. rewrite sum_cons.
    destruct (N.ltb_spec (u_avail a) (len m)) as [Hdrop|Hkeep].
    { (* dropped *)
      match goal with |- context [su_loop ch t ?a1] => destruct (IH a1) as (a' & E & H1 & H2 & H3 & H4 & H5) end;
        cbn [u_pkts u_small u_small_bytes u_seq u_avail u_sliced_id u_mem] in *; [lia|exact Hbytes|].
      exists a'. repeat split; auto. lia. }
    cbn [su_pack filter]. fold (is_large m).
    destruct (is_large m) eqn:El; unfold is_large in El; [apply N.ltb_lt in El|apply N.ltb_ge in El].
    { (* sliced *)
      pose proof SS_pos as Hss.
      change (div_ceil (len m) SLICE_SIZE) with (num_slices_of m).
      rewrite (unrel_slices_spec ch (u_sliced_id a) m ltac:(lia) (N.to_nat (num_slices_of m)) 0) by lia.
      cbn [bind]. rewrite range_iota, N2Nat.id. fold (unrel_slice_pkts ch (u_sliced_id a) m (u_seq a)).
      match goal with |- context [su_loop ch t ?a1] => destruct (IH a1) as (a' & E & H1 & H2 & H3 & H4 & H5) end;
        cbn [u_pkts u_small u_small_bytes u_seq u_avail u_sliced_id u_mem] in *; [lia|exact Hbytes|].
      exists a'. split; [exact E|].
      split; [rewrite H1, <- app_assoc; reflexivity|].
      split; [rewrite H2, len_app; unfold unrel_slice_pkts; rewrite len_uslices, len_iota; lia|].
      split; [exact H3|]. split; [rewrite H4, len_cons; lia|lia]. }
    (* small *)
    fold (unrel_entry_size m). rewrite Hbytes.
    destruct (N.ltb_spec SLICE_SIZE (sum (map unrel_entry_size (u_small a)) + unrel_entry_size m)) as [Hflush|Hfits].
    + match goal with |- context [su_loop ch t ?a1] => destruct (IH a1) as (a' & E & H1 & H2 & H3 & H4 & H5) end;
        cbn [u_pkts u_small u_small_bytes u_seq u_avail u_sliced_id u_mem app] in *;
        [lia|cbn [map]; rewrite sum_one; lia|].
      exists a'. split; [exact E|].
      split; [rewrite H1, <- app_assoc; reflexivity|].
      split; [rewrite H2, len_cons; lia|].
      split; [exact H3|]. split; [exact H4|lia].
    + match goal with |- context [su_loop ch t ?a1] => destruct (IH a1) as (a' & E & H1 & H2 & H3 & H4 & H5) end;
        cbn [u_pkts u_small u_small_bytes u_seq u_avail u_sliced_id u_mem] in *;
        [lia|rewrite map_app, sum_app; cbn [map]; rewrite sum_one; lia|].
      exists a'. split; [exact E|]. repeat split; auto. lia.
Qed.

(* U3, main statement: get_packets_to_send is the specification function *)
Theorem su_get_packets_spec : forall s seq avail, su_inv s ->
  su_get_packets s seq avail = Ok (su_spec s seq avail).
Proof.
  intros s seq avail [H1 H2]. unfold su_get_packets, su_spec.
  match goal with |- context [su_loop _ _ ?a0] =>
    destruct (su_loop_spec (su_ch s) (su_queue s) a0) as (a' & E & P1 & P2 & P3 & P4 & P5) end;
    cbn [u_pkts u_small u_small_bytes u_seq u_avail u_sliced_id u_mem app] in *; [lia|reflexivity|].
  rewrite E. cbn [bind].
  assert (Efin : (match u_small a' with
                  | [] => (u_pkts a', u_seq a')
                  | sm => (u_pkts a' ++ [SmallUnreliable (u_seq a') (su_ch s) sm], u_seq a' + 1)
                  end) = (fin_pkts (su_ch s) a', fin_seq a')).
  { unfold fin_pkts, fin_seq. destruct (u_small a'); reflexivity. }
  rewrite Efin. cbv beta iota zeta. rewrite P1, P2, P3, P4, P5.
  replace (su_mem s - sum (map len (su_queue s))) with 0 by lia. reflexivity.
Qed.

(* ================================================================== *)
(* properties of the specification *)

Lemma su_left_kept avail q : su_left avail q + sum (map len (su_kept avail q)) = avail.
Proof.
  revert avail; induction q as [|m t IH]; intros avail; cbn [su_left su_kept map].
  - rewrite sum_nil. lia.
  - destruct (N.ltb_spec avail (len m)); [apply IH|].
    cbn [map]. rewrite sum_cons. specialize (IH (avail - len m)). lia.
Qed.

(* nothing is dropped when the budget covers the queue *)
Lemma su_kept_all avail q : sum (map len q) <= avail -> su_kept avail q = q.
Proof.
  revert avail; induction q as [|m t IH]; intros avail H; cbn [su_kept]; [reflexivity|].
  cbn [map] in H. rewrite sum_cons in H.
  destruct (N.ltb_spec avail (len m)); [lia|]. f_equal. apply IH. lia.
Qed.

(* the kept messages are a subsequence of the queue (so relative order is kept) *)
Inductive subseq {A} : list A -> list A -> Prop :=
| subseq_nil : subseq [] []
| subseq_skip x l l' : subseq l l' -> subseq l (x :: l')
| subseq_keep x l l' : subseq l l' -> subseq (x :: l) (x :: l').

Lemma su_kept_subseq avail q : subseq (su_kept avail q) q.
Proof.
  revert avail; induction q as [|m t IH]; intros avail; cbn [su_kept]; [constructor|].
  destruct (avail <? len m); constructor; apply IH.
Qed.

Lemma payload_uslices ch sid m seq idxs :
  payload_total (uslices ch sid m seq idxs) = sum (map (plen m) idxs).
Proof.
  revert seq; induction idxs as [|i t IH]; intros seq; cbn [uslices map]; [reflexivity|].
  unfold payload_total in *. cbn [map payload_bytes]. rewrite !sum_cons, IH. reflexivity.
Qed.

Lemma seqs_uslices ch sid m seq idxs : seqs_from seq (uslices ch sid m seq idxs).
Proof.
  revert seq; induction idxs as [|i t IH]; intros seq; cbn [uslices seqs_from packet_seq]; auto.
Qed.

Lemma len_unrel_slice_pkts ch sid m seq : len (unrel_slice_pkts ch sid m seq) = num_slices_of m.
Proof. unfold unrel_slice_pkts. now rewrite len_uslices, len_iota. Qed.

Lemma is_large_pos m : is_large m = true -> 0 < len m.
Proof. unfold is_large. intros H. apply N.ltb_lt in H. pose proof SS_pos. lia. Qed.

Lemma payload_su_pack ch : forall kept sid seq cur,
  payload_total (su_pack ch kept sid seq cur) = sum (map len kept) + sum (map len cur).
Proof.
  induction kept as [|m t IH]; intros sid seq cur; cbn [su_pack map].
  - rewrite sum_nil. destruct cur as [|x l]; [reflexivity|].
    unfold payload_total. cbn [map payload_bytes]. rewrite sum_one. lia.
  - rewrite sum_cons. destruct (is_large m) eqn:El.
    + rewrite payload_total_app, IH. unfold unrel_slice_pkts.
      rewrite payload_uslices, sum_plen_all by (now apply is_large_pos). lia.
    + destruct (SLICE_SIZE <? _).
      * change (SmallUnreliable seq ch cur :: su_pack ch t sid (seq + 1) [m])
          with ([SmallUnreliable seq ch cur] ++ su_pack ch t sid (seq + 1) [m]).
        rewrite payload_total_app, IH. unfold payload_total. cbn [map payload_bytes].
        rewrite !sum_one. lia.
      * rewrite IH, map_app, sum_app. cbn [map]. rewrite sum_one. lia.
Qed.

Lemma seqs_su_pack ch : forall kept sid seq cur, seqs_from seq (su_pack ch kept sid seq cur).
Proof.
  induction kept as [|m t IH]; intros sid seq cur; cbn [su_pack].
  - destruct cur; cbn [seqs_from packet_seq]; auto.
  - destruct (is_large m).
    + apply seqs_from_app. split; [apply seqs_uslices|]. rewrite len_unrel_slice_pkts. apply IH.
    + destruct (SLICE_SIZE <? _); [|apply IH].
      cbn [seqs_from packet_seq]. split; [reflexivity|apply IH].
Qed.

(* ================================================================== *)
(* U2 *)
Theorem su_get_packets_safe : forall s seq avail, su_inv s ->
  exists s' pkts avail',
    su_get_packets s seq avail = Ok (s', pkts, seq + len pkts, avail') /\
    su_inv s' /\ su_mem s' = 0 /\ su_queue s' = [] /\
    avail' + payload_total pkts = avail /\ seqs_from seq pkts.
Proof.
  intros s seq avail Hinv. rewrite (su_get_packets_spec s seq avail Hinv). unfold su_spec.
  eexists _, _, _. split; [reflexivity|].
  split; [unfold su_inv; cbn; split; [reflexivity|lia]|].
  split; [reflexivity|]. split; [reflexivity|].
  split; [|apply seqs_su_pack].
  rewrite payload_su_pack. cbn [map]. rewrite sum_nil.
  pose proof (su_left_kept avail (su_queue s)). lia.
Qed.

(* ================================================================== *)
(* U3: what the packets carry *)

Definition small_msgs_of (pkts : list packet) : list (list N) :=
  flat_map (fun p => match p with SmallUnreliable _ _ ms => ms | _ => [] end) pkts.

Definition slices_of (pkts : list packet) : list slice :=
  flat_map (fun p => match p with UnreliableSlice _ _ sl => [sl] | _ => [] end) pkts.

(* the slices of a list of large messages, with consecutive slice ids *)
Fixpoint all_slices (sid : N) (larges : list (list N)) : list slice :=
  match larges with
  | [] => []
  | m :: t => map (slice_of m sid) (iota (num_slices_of m)) ++ all_slices (sid + 1) t
  end.

Definition unrel_pkt_ch (ch : N) (p : packet) : Prop :=
  match p with SmallUnreliable _ c _ | UnreliableSlice _ c _ => c = ch | _ => False end.

Lemma small_msgs_of_app p q : small_msgs_of (p ++ q) = small_msgs_of p ++ small_msgs_of q.
Proof. unfold small_msgs_of. apply flat_map_app. Qed.

Lemma slices_of_app p q : slices_of (p ++ q) = slices_of p ++ slices_of q.
Proof. unfold slices_of. apply flat_map_app. Qed.

Lemma small_msgs_uslices ch sid m seq idxs : small_msgs_of (uslices ch sid m seq idxs) = [].
Proof. revert seq; induction idxs as [|i t IH]; intros seq; cbn; auto. Qed.

Lemma slices_uslices ch sid m seq idxs : slices_of (uslices ch sid m seq idxs) = map (slice_of m sid) idxs.
Proof.
  revert seq; induction idxs as [|i t IH]; intros seq; cbn [uslices map]; [reflexivity|].
  unfold slices_of in *. cbn [flat_map app]. now rewrite IH.
Qed.

Lemma small_msgs_su_pack ch : forall kept sid seq cur,
  small_msgs_of (su_pack ch kept sid seq cur) = cur ++ filter (fun m => negb (is_large m)) kept.
Proof.
  induction kept as [|m t IH]; intros sid seq cur; cbn [su_pack filter].
  - rewrite app_nil_r. destruct cur; [reflexivity|]. unfold small_msgs_of. cbn [flat_map]. now rewrite app_nil_r.
  - destruct (is_large m); cbn [negb].
    + unfold unrel_slice_pkts. now rewrite small_msgs_of_app, small_msgs_uslices, IH.
    + destruct (SLICE_SIZE <? _).
      * unfold small_msgs_of in *. cbn [flat_map]. now rewrite IH.
      * rewrite IH, <- app_assoc. reflexivity.
Qed.

Lemma slices_su_pack ch : forall kept sid seq cur,
  slices_of (su_pack ch kept sid seq cur) = all_slices sid (filter is_large kept).
Proof.
  induction kept as [|m t IH]; intros sid seq cur; cbn [su_pack filter all_slices].
  - destruct cur; reflexivity.
  - destruct (is_large m); cbn [all_slices].
    + unfold unrel_slice_pkts. now rewrite slices_of_app, slices_uslices, IH.
    + destruct (SLICE_SIZE <? _); [|apply IH].
      unfold slices_of in *. cbn [flat_map app]. apply IH.
Qed.

Lemma ch_su_pack ch : forall kept sid seq cur, Forall (unrel_pkt_ch ch) (su_pack ch kept sid seq cur).
Proof.
  induction kept as [|m t IH]; intros sid seq cur; cbn [su_pack].
  - destruct cur; repeat constructor.
  - destruct (is_large m).
    + apply Forall_app. split; [|apply IH]. unfold unrel_slice_pkts.
      generalize (iota (num_slices_of m)). intros idxs. revert seq.
      induction idxs; intros seq; cbn [uslices]; constructor; auto. reflexivity.
    + destruct (SLICE_SIZE <? _); [|apply IH]. constructor; [reflexivity|apply IH].
Qed.

(* every kept small message is carried exactly once, whole, in queue order; every kept large
   message is carried as exactly its slices 0..n-1 in order under a fresh slice id; dropped
   messages are not carried at all *)
Theorem su_carried : forall s seq avail s' pkts seq' avail',
  su_inv s -> su_get_packets s seq avail = Ok (s', pkts, seq', avail') ->
  let kept := su_kept avail (su_queue s) in
  subseq kept (su_queue s) /\
  small_msgs_of pkts = filter (fun m => negb (is_large m)) kept /\
  slices_of pkts = all_slices (su_sliced_id s) (filter is_large kept) /\
  su_sliced_id s' = su_sliced_id s + len (filter is_large kept) /\
  Forall (unrel_pkt_ch (su_ch s)) pkts /\
  avail' = su_left avail (su_queue s).
Proof.
  intros s seq avail s' pkts seq' avail' Hinv E kept.
  rewrite (su_get_packets_spec s seq avail Hinv) in E. unfold su_spec in E. inversion E; subst. clear E.
  split; [apply su_kept_subseq|].
  split; [apply (small_msgs_su_pack (su_ch s) _ _ _ [])|].
  split; [apply slices_su_pack|]. split; [reflexivity|].
  split; [apply ch_su_pack|reflexivity].
Qed.

(* ================================================================== *)
(* U4: sizes *)

Definition unrel_size_ok (p : packet) : Prop :=
  match p with
  | SmallUnreliable _ _ ms =>
      (sum (map unrel_entry_size ms) <= SLICE_SIZE \/ exists m, ms = [m]) /\
      sum (map unrel_entry_size ms) <= SLICE_SIZE + 8 /\
      len ms < 65536 /\
      Forall (fun m => len m <= SLICE_SIZE) ms
  | UnreliableSlice _ _ sl => 1 <= len (sl_payload sl) <= SLICE_SIZE /\ sl_index sl < sl_num sl
  | _ => False
  end.

Definition cur_ok (cur : list (list N)) : Prop :=
  (sum (map unrel_entry_size cur) <= SLICE_SIZE \/ exists m, cur = [m]) /\
  Forall (fun m => len m <= SLICE_SIZE) cur.

Lemma unrel_entry_ge1 (ms : list (list N)) : len ms <= sum (map unrel_entry_size ms).
Proof.
  induction ms as [|m t IH]; [cbn [map]; rewrite sum_nil; cbn; lia|].
  cbn [map]. rewrite sum_cons, len_cons. unfold unrel_entry_size at 1.
  pose proof (varint_len_bounds (len m)). lia.
Qed.

Lemma cur_ok_pkt seq ch cur : cur_ok cur -> unrel_size_ok (SmallUnreliable seq ch cur).
Proof.
  intros [H1 H2]. cbn [unrel_size_ok]. split; [exact H1|].
  pose proof (unrel_entry_ge1 cur) as Hge. pose proof SS_value as Hv.
  destruct H1 as [H1|(m & ->)].
  - split; [lia|]. split; [lia|exact H2].
  - inversion H2; subst. cbn [map]. rewrite sum_one, len_one. unfold unrel_entry_size.
    pose proof (varint_len_bounds (len m)). split; [lia|]. split; [lia|exact H2].
Qed.

Lemma su_pack_sizes ch : forall kept sid seq cur,
  cur_ok cur -> Forall unrel_size_ok (su_pack ch kept sid seq cur).
Proof.
  induction kept as [|m t IH]; intros sid seq cur Hc; cbn [su_pack].
  - destruct cur as [|x l]; [constructor|]. constructor; [|constructor]. now apply cur_ok_pkt.
  - destruct (is_large m) eqn:El.
    + apply Forall_app. split; [|now apply IH].
      pose proof (is_large_pos m El) as Hpos. unfold unrel_slice_pkts.
      assert (Hin : forall i, In i (iota (num_slices_of m)) -> i < num_slices_of m) by (intros i; apply in_iota).
      revert Hin. generalize (iota (num_slices_of m)). intros idxs. revert seq.
      induction idxs as [|i idxs IHi]; intros seq Hin; cbn [uslices]; constructor.
      * cbn [unrel_size_ok slice_of sl_payload sl_index sl_num]. split; [|apply Hin; now left].
        apply (plen_bounds m i Hpos). apply Hin. now left.
      * apply IHi. intros j Hj. apply Hin. now right.
    + unfold is_large in El. apply N.ltb_ge in El. destruct Hc as [Hc1 Hc2].
      destruct (N.ltb_spec SLICE_SIZE (sum (map unrel_entry_size cur) + unrel_entry_size m)) as [Hflush|Hfits].
      * constructor; [apply cur_ok_pkt; split; assumption|].
        apply IH. split; [right; now exists m|constructor; [exact El|constructor]].
      * apply IH. split.
        -- left. rewrite map_app, sum_app. cbn [map]. rewrite sum_one. exact Hfits.
        -- apply Forall_app. split; [exact Hc2|constructor; [exact El|constructor]].
Qed.

Lemma cur_ok_nil : cur_ok [].
Proof. split; [left; cbn [map]; rewrite sum_nil; pose proof SS_pos; lia|constructor]. Qed.

Theorem su_get_packets_sizes : forall s seq avail s' pkts seq' avail',
  su_inv s -> su_get_packets s seq avail = Ok (s', pkts, seq', avail') ->
  Forall unrel_size_ok pkts.
Proof.
  intros s seq avail s' pkts seq' avail' Hinv E.
  rewrite (su_get_packets_spec s seq avail Hinv) in E. unfold su_spec in E. inversion E; subst.
  apply su_pack_sizes. apply cur_ok_nil.
Qed.

(* the empty-packet quirk: an empty SmallUnreliable packet is emitted only if some kept small
   message does not fit a packet body on its own *)
Definition not_empty_small (p : packet) : Prop :=
  match p with SmallUnreliable _ _ [] => False | _ => True end.

Lemma su_pack_nonempty ch : forall kept sid seq cur,
  (forall m, In m kept -> is_large m = false -> unrel_entry_size m <= SLICE_SIZE) ->
  Forall not_empty_small (su_pack ch kept sid seq cur).
Proof.
  induction kept as [|m t IH]; intros sid seq cur Hfit; cbn [su_pack].
  - destruct cur; repeat constructor.
  - assert (Hfit' : forall m', In m' t -> is_large m' = false -> unrel_entry_size m' <= SLICE_SIZE)
      by (intros m' Hm'; apply Hfit; now right).
    destruct (is_large m) eqn:El.
    + apply Forall_app. split; [|now apply IH]. unfold unrel_slice_pkts.
      generalize (iota (num_slices_of m)). intros idxs. revert seq.
      induction idxs; intros seq; cbn [uslices]; constructor; auto. exact I.
    + destruct (N.ltb_spec SLICE_SIZE (sum (map unrel_entry_size cur) + unrel_entry_size m)) as [Hflush|Hfits];
        [|now apply IH].
      constructor; [|now apply IH].
      destruct cur; [|exact I]. cbn [map] in Hflush. rewrite sum_nil in Hflush.
      specialize (Hfit m (or_introl eq_refl) El). lia.
Qed.

Lemma su_kept_in avail q m : In m (su_kept avail q) -> In m q.
Proof.
  revert avail; induction q as [|x t IH]; intros avail; cbn [su_kept]; [tauto|].
  destruct (avail <? len x); cbn [In]; intros H; [right; eauto|].
  destruct H; [now left|right; eauto].
Qed.

Theorem su_no_empty_packet : forall s seq avail s' pkts seq' avail',
  su_inv s -> su_get_packets s seq avail = Ok (s', pkts, seq', avail') ->
  (forall m, In m (su_queue s) -> len m <= SLICE_SIZE -> unrel_entry_size m <= SLICE_SIZE) ->
  forall sq c, ~ In (SmallUnreliable sq c []) pkts.
Proof.
  intros s seq avail s' pkts seq' avail' Hinv E Hfit sq c Hin.
  rewrite (su_get_packets_spec s seq avail Hinv) in E. unfold su_spec in E. inversion E; subst.
  assert (Hf : forall m, In m (su_kept avail (su_queue s)) -> is_large m = false ->
                         unrel_entry_size m <= SLICE_SIZE).
  { intros m Hm El. apply Hfit; [eapply su_kept_in; eauto|].
    unfold is_large in El. now apply N.ltb_ge in El. }
  pose proof (su_pack_nonempty (su_ch s) (su_kept avail (su_queue s)) (su_sliced_id s) seq [] Hf) as H.
  rewrite Forall_forall in H. exact (H _ Hin).
Qed.

(* exact form of the quirk: at most one SmallUnreliable packet of a tick is empty, it is the first
   of them, and it is there exactly when the first kept small message does not fit a body alone *)
Definition ubodies (ps : list packet) : list (list (list N)) :=
  flat_map (fun p => match p with SmallUnreliable _ _ ms => [ms] | _ => [] end) ps.

Definition ushape (F : list (list (list N))) : Prop :=
  match F with
  | [] => True
  | [] :: F' => match F' with
                | (m :: _) :: more => SLICE_SIZE < unrel_entry_size m /\ Forall (fun b => b <> []) more
                | _ => False
                end
  | (m :: _) :: more => unrel_entry_size m <= SLICE_SIZE /\ Forall (fun b => b <> []) more
  end.

Lemma ubodies_app p q : ubodies (p ++ q) = ubodies p ++ ubodies q.
Proof. unfold ubodies. apply flat_map_app. Qed.

Lemma ubodies_uslices ch sid m seq idxs : ubodies (uslices ch sid m seq idxs) = [].
Proof.
  revert seq; induction idxs as [|i t IH]; intros seq; cbn [uslices]; [reflexivity|].
  unfold ubodies in *. cbn [flat_map app]. apply IH.
Qed.

Lemma su_pack_bodies_cons ch : forall kept sid seq x xs,
  exists xs' more, ubodies (su_pack ch kept sid seq (x :: xs)) = (x :: xs') :: more /\
                   Forall (fun b => b <> []) more.
Proof.
  induction kept as [|m t IH]; intros sid seq x xs; cbn [su_pack].
  - exists xs, []. split; [reflexivity|constructor].
  - destruct (is_large m).
    + unfold unrel_slice_pkts. rewrite ubodies_app, ubodies_uslices. cbn [app]. apply IH.
    + destruct (SLICE_SIZE <? _).
      * destruct (IH sid (seq + 1) m []) as (xs' & more & E & HF).
        exists xs, ((m :: xs') :: more). unfold ubodies in *. cbn [flat_map app]. rewrite E.
        split; [reflexivity|constructor; [discriminate|exact HF]].
      * apply (IH sid seq x (xs ++ [m])).
Qed.

Lemma su_pack_shape ch : forall kept sid seq, ushape (ubodies (su_pack ch kept sid seq [])).
Proof.
  induction kept as [|m t IH]; intros sid seq; cbn [su_pack]; [exact I|].
  destruct (is_large m).
  - unfold unrel_slice_pkts. rewrite ubodies_app, ubodies_uslices. cbn [app]. apply IH.
  - cbn [map app]. rewrite sum_nil.
    destruct (N.ltb_spec SLICE_SIZE (0 + unrel_entry_size m)) as [Hbig|Hfit].
    + destruct (su_pack_bodies_cons ch t sid (seq + 1) m []) as (xs' & more & E & HF).
      unfold ubodies in *. cbn [flat_map app]. rewrite E. cbn [ushape]. split; [lia|exact HF].
    + destruct (su_pack_bodies_cons ch t sid seq m []) as (xs' & more & E & HF).
      rewrite E. cbn [ushape]. split; [lia|exact HF].
Qed.

Lemma in_ubodies b pkts : In b (ubodies pkts) <-> exists sq c, In (SmallUnreliable sq c b) pkts.
Proof.
  unfold ubodies. rewrite in_flat_map. split.
  - intros (p & Hp & Hb). destruct p; cbn in Hb; try contradiction.
    destruct Hb as [<-|[]]. eauto.
  - intros (sq & c & H). exists (SmallUnreliable sq c b). split; [exact H|now left].
Qed.

Theorem su_empty_packet_iff : forall s seq avail s' pkts seq' avail',
  su_inv s -> su_get_packets s seq avail = Ok (s', pkts, seq', avail') ->
  ((exists sq c, In (SmallUnreliable sq c []) pkts) <->
   (exists m rest, small_msgs_of pkts = m :: rest /\ SLICE_SIZE < unrel_entry_size m)).
Proof.
  intros s seq avail s' pkts seq' avail' Hinv E.
  rewrite (su_get_packets_spec s seq avail Hinv) in E. unfold su_spec in E. inversion E; subst. clear E.
  set (pk := su_pack _ _ _ _ _).
  pose proof (su_pack_shape (su_ch s) (su_kept avail (su_queue s)) (su_sliced_id s) seq) as H. fold pk in H.
  assert (Ec : small_msgs_of pk = concat (ubodies pk)).
  { clear. induction pk as [|p t IH]; [reflexivity|].
    unfold small_msgs_of, ubodies in *. cbn [flat_map]. rewrite concat_app, <- IH.
    destruct p; cbn [concat app]; rewrite ?app_nil_r; reflexivity. }
  rewrite Ec, <- in_ubodies. destruct (ubodies pk) as [|[|m r] F']; cbn [ushape] in H.
  - split; [intros []|intros (m & rest & Hc & _); discriminate].
  - destruct F' as [|[|m r] more]; try contradiction. destruct H as [H1 H2]. split.
    + intros _. exists m, (r ++ concat more). split; [reflexivity|exact H1].
    + intros _. now left.
  - destruct H as [H1 H2]. split.
    + intros [Hin|Hin]; [discriminate|]. rewrite Forall_forall in H2. exfalso. now apply (H2 [] Hin).
    + intros (m' & rest & Hc & Ho). cbn [concat app] in Hc. inversion Hc; subst. lia.
Qed.

(* ================================================================== *)
(* concrete witnesses *)
Definition udemo (ns : list nat) : send_unrel :=
  fold_left (fun s n => su_send s (repeatN 7 n)) ns (send_unrel_new 0 100000).

(* a 1199-byte message has entry size 1199 + 2 = 1201 > SLICE_SIZE: an EMPTY packet comes first *)
Example unrel_empty_packet_quirk :
  match su_get_packets (udemo [1199%nat]) 0 60000 with
  | Ok (_, pkts, seq', _) =>
      pkts = [SmallUnreliable 0 0 []; SmallUnreliable 1 0 [repeatN 7 1199]] /\ seq' = 2
  | _ => False
  end.
Proof. vm_compute. split; reflexivity. Qed.

Example unrel_no_empty_packet_1198 :
  match su_get_packets (udemo [1198%nat]) 0 60000 with
  | Ok (_, pkts, seq', _) => pkts = [SmallUnreliable 0 0 [repeatN 7 1198]] /\ seq' = 1
  | _ => False
  end.
Proof. vm_compute. split; reflexivity. Qed.

(* packets do not follow queue order across kinds: slices leave at once, small messages wait
   for their packet to fill up *)
Example unrel_order :
  match su_get_packets (udemo [3%nat; 1201%nat; 2%nat]) 5 60000 with
  | Ok (_, pkts, seq', _) =>
      map packet_seq pkts = [5; 6; 7] /\
      small_msgs_of pkts = [repeatN 7 3; repeatN 7 2] /\
      map sl_index (slices_of pkts) = [0; 1] /\
      match pkts with [UnreliableSlice _ _ _; UnreliableSlice _ _ _; SmallUnreliable _ _ _] => True | _ => False end
  | _ => False
  end.
Proof. vm_compute. repeat split; reflexivity. Qed.

(* ================================================================== *)
Print Assumptions su_inv_init.
Print Assumptions su_send_safe.
Print Assumptions su_get_packets_spec.
Print Assumptions su_get_packets_safe.
Print Assumptions su_carried.
Print Assumptions su_get_packets_sizes.
Print Assumptions su_no_empty_packet.
Print Assumptions su_empty_packet_iff.
