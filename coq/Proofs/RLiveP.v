(* RLiveP.v - liveness of the reliable channels (Spec/RLiveSpec.v): once the network delivers
   packets again and neither side has been disconnected, every message submitted on a reliable
   channel is obtained within a bounded number of ticks.
   L1 good_tick_delivers_budget_suffices: one good tick, if the budget covers everything waiting;
   L2 good_ticks_deliver: ticks_needed good ticks, with a budget of at least one slice per tick;
   L3 eventually_delivered: the same after ANY history (loss, duplication, reordering, any calls);
   E  good_ticks_example: a concrete run; slice_starvation_in_system: below one slice of budget
      a sliced message is never transmitted, however good the network.
   Helper files: RLiveBaseP.v, RLiveInvP.v (the liveness invariant), RLiveTickP.v (one good tick). *)
From RenetV Require Import Base Consts Varint Packet Channels Conn Server.
From RenetV Require Import CodecSpec RecvSpec SendSpec ConnSpec ConnInvSpec RSysSpec RSysInvSpec RLiveSpec.
From RenetV Require Import SMapP ConnBaseP ConnProcP ConnFlushP ConnP RSysBaseP RSysStepP RSysInvP RSysP.
From RenetV Require Import RLiveBaseP RLiveInvP RLiveTickP.
From RenetV Require AcksP VarintP PacketP RecvRelP RecvUnrelP SMapSendP SendRelP SendUnrelP DisconnectP ConnEncP SliceP.
Require Import Lia ZifyBool ZifyN ZifyNat Permutation.
Open Scope N_scope.

Arguments N.add : simpl never.
Arguments N.sub : simpl never.
Arguments N.mul : simpl never.
Arguments N.div : simpl never.
Arguments N.modulo : simpl never.
Arguments N.eqb : simpl never.
Arguments N.ltb : simpl never.
Arguments N.leb : simpl never.
Local Opaque SLICE_SIZE MAX_ACK_RANGES SER_BUFFER NC_MAX_PAYLOAD_BYTES DISCARD_PACKET_SECS VARINT_MAX MAX_NUM_SLICES.

Import SendRelP(st_of, static_of, pkt_ok, entry_ok, packed, part_acked).

(* ================================================================== *)
(* 1. nothing outstanding and B's application has polled: everything has been obtained *)

Lemma outstanding_pending c : conn_inv c -> (conn_outstanding c = 0 <-> forall y, ~ pend c y).
Proof.
  intros Hi. rewrite <- len_pending_list. split.
  - intros H y Hy. apply (in_pending_list c y Hi) in Hy. apply SMapP.len_0_nil in H. rewrite H in Hy. destruct Hy.
  - intros H. destruct (pending_list c) as [|y l] eqn:E; [reflexivity|].
    exfalso. apply (H y). apply (in_pending_list c y Hi). rewrite E. now left.
Qed.

(* a message still in the send channel has a part waiting for its acknowledgement *)
Lemma unacked_has_pending now s id u : sr_inv now s -> sm_find id (sr_unacked s) = Some u ->
  exists p, packed s id p = Some false.
Proof.
  intros Hinv E. destruct (SendRelP.sr_inv_find _ _ _ _ Hinv E) as (_ & Hwf & _). unfold packed. rewrite E.
  destruct u as [m l|m num na nx ak ls]; cbn [part_acked]; [now exists None|].
  destruct Hwf as (_ & _ & W3 & _ & W5 & W6 & _).
  destruct (SMapSendP.count_true_not_full ak) as (i & Hi).
  { unfold SMapSendP.count_true. unfold len in *. lia. }
  exists (Some (N.of_nat i)). now rewrite Nat2N.id.
Qed.

Lemma map_nth_seq {A} (l : list A) d : map (fun i => nth i l d) (seq 0 (length l)) = l.
Proof.
  induction l as [|a l IH]; [reflexivity|]. cbn [length seq map nth]. f_equal.
  rewrite <- seq_shift, map_map. exact IH.
Qed.

Lemma map_nth_iota {A} (l : list A) d : map (fun id => nth (N.to_nat id) l d) (iota (len l)) = l.
Proof.
  unfold iota, len. rewrite Nat2N.id, map_map.
  erewrite map_ext; [apply map_nth_seq|]. intros i. cbv beta. now rewrite Nat2N.id.
Qed.

(* the state of B's receive channel when every message id has arrived and nothing is available *)
Lemma ordered_all_obtained sent r outs :
  RecvRelP.hcore sent r outs -> rr_order r = Ordered -> next_id r = None ->
  (forall id, id < len sent -> rr_seen r id = true) -> map snd outs = sent.
Proof.
  intros H Eo Hn Hall. pose proof (RecvRelP.hc_outs _ _ _ H) as Ho. pose proof (RecvRelP.hc_outs_ok _ _ _ H) as Hok.
  unfold RecvRelP.outs_rel in Ho. rewrite Eo in Ho. destruct Ho as [A _].
  unfold next_id in Hn. rewrite Eo in Hn.
  destruct (sm_mem (rr_oldest r) (rr_messages r)) eqn:Em; [discriminate|].
  assert (Hlen : len outs = rr_oldest r).
  { apply (f_equal (@length N)) in A. rewrite map_length, iota_length in A. unfold len. lia. }
  assert (Hge : len sent <= rr_oldest r).
  { destruct (N.le_gt_cases (len sent) (rr_oldest r)) as [Hle|Hgt]; [exact Hle|exfalso].
    specialize (Hall _ Hgt). unfold rr_seen in Hall. rewrite Eo, Em in Hall.
    destruct (N.ltb_spec (rr_oldest r) (rr_oldest r)); [lia|discriminate]. }
  assert (Hle : rr_oldest r <= len sent).
  { destruct (N.eq_dec (rr_oldest r) 0) as [->|Hne]; [lia|].
    assert (Hin : In (rr_oldest r - 1) (map fst outs)) by (rewrite A; apply in_iota; lia).
    apply in_map_iff in Hin. destruct Hin as ([id m] & Hid & Hin). cbn [fst] in Hid. subst id.
    unfold RecvRelP.outs_ok in Hok. rewrite Forall_forall in Hok. specialize (Hok _ Hin). cbn [fst snd] in Hok.
    apply RecvRelP.msg_at_lt in Hok. lia. }
  rewrite (RecvRelP.prefix_of_iota sent outs _ A Hok).
  apply firstn_all2. unfold len in *. lia.
Qed.

Lemma unordered_all_obtained sent r outs mr rcv :
  RecvRelP.hcore sent r outs -> rr_order r = Unordered mr rcv -> next_id r = None ->
  (forall id, id < len sent -> rr_seen r id = true) -> Permutation (map snd outs) sent.
Proof.
  intros H Eo Hn Hall. pose proof (RecvRelP.hc_outs _ _ _ H) as Ho. pose proof (RecvRelP.hc_outs_ok _ _ _ H) as Hok.
  unfold RecvRelP.outs_rel in Ho. rewrite Eo in Ho. destruct Ho as [A B].
  unfold next_id in Hn. rewrite Eo in Hn.
  destruct (rr_messages r) as [|[id0 m0] rest] eqn:Em; [|discriminate].
  unfold RecvRelP.outs_ok in Hok.
  assert (Hperm : Permutation (map fst outs) (iota (len sent))).
  { apply NoDup_Permutation; [exact A|apply NoDup_iota|]. intros id. rewrite in_iota. split.
    - intros Hin. apply in_map_iff in Hin. destruct Hin as ([id' m] & <- & Hin).
      rewrite Forall_forall in Hok. specialize (Hok _ Hin). cbn [fst snd] in *. eapply RecvRelP.msg_at_lt; eauto.
    - intros Hlt. apply B. split; [auto|reflexivity]. }
  assert (Eg : map snd outs = map (fun id => nth (N.to_nat id) sent []) (map fst outs)).
  { rewrite map_map. apply map_ext_in. intros [id m] Hin. rewrite Forall_forall in Hok.
    specialize (Hok _ Hin). cbn [fst snd] in *. unfold msg_at in Hok. symmetry. now apply nth_error_nth. }
  rewrite Eg. eapply Permutation_trans; [apply Permutation_map; exact Hperm|]. rewrite map_nth_iota. apply Permutation_refl.
Qed.

(* what "everything submitted has been obtained" means for a configured channel *)
Definition obtained_all (cfg_ab : list chan_config) (s : rsys) : Prop :=
  forall ch,
    match chan_kind cfg_ab ch with
    | Some (TReliableOrdered _) => log_get (got_b s) ch = log_get (sent_a s) ch
    | Some (TReliableUnordered _) => Permutation (log_get (got_b s) ch) (log_get (sent_a s) ch)
    | _ => True
    end.

Lemma quiescent_obtained cfg_ab cfg_ba s :
  tick_inv cfg_ab cfg_ba s -> conn_outstanding (ra s) = 0 -> drained (rb s) -> obtained_all cfg_ab s.
Proof.
  intros ((Hbase & Dab & _) & (Hlin & _) & _ & _ & Hch) Hout Hdr ch.
  destruct Hbase as [Hia _ _ _ _ _]. unfold dir_inv in Dab.
  destruct (chan_kind cfg_ab ch) as [ty|] eqn:Hk; [|exact I].
  assert (Hmain : ty <> TUnreliable ->
    exists r outs, sm_find ch (c_rr (rb s)) = Some r /\ RecvRelP.hcore (log_get (sent_a s) ch) r outs /\
      map snd outs = log_get (got_b s) ch /\
      RecvRelP.mode r = (match ty with TReliableOrdered _ => true | _ => false end) /\
      (forall id, id < len (log_get (sent_a s) ch) -> rr_seen r id = true)).
  { intros Hty. pose proof (chan_kind_ordf cfg_ab ch ty Hk Hty) as Ho.
    pose proof (di_receiver _ _ _ _ _ _ _ _ _ _ _ _ _ Dab ch) as D3.
    destruct (sm_find ch (c_rr (rb s))) as [r|] eqn:Hr; [|congruence].
    destruct D3 as (o & Ho' & Hre). rewrite Ho in Ho'. injection Ho' as <-.
    destruct (rr_refines_hcore _ _ _ _ Hre) as (outs & H & G & M).
    exists r, outs. split; [reflexivity|]. split; [exact H|]. split; [exact G|]. split; [exact M|].
    assert (Hmem : sm_mem ch (c_sr (ra s)) = true) by (apply Hch; congruence).
    destruct (sm_mem_find _ _ Hmem) as (sa & Hsa).
    destruct (di_sender _ _ _ _ _ _ _ _ _ _ _ _ _ Dab ch sa Hsa) as [Hnext _].
    destruct (li_rel _ _ _ _ _ _ _ _ Hlin ch sa r Hsa Hr) as [A _].
    intros id Hid. apply A; [lia|].
    unfold kind_of. destruct (sm_find id (sr_unacked sa)) as [u|] eqn:Eu; [exfalso|reflexivity].
    destruct (inv_find_sr _ _ _ Hia Hsa) as [Hsi _].
    destruct (unacked_has_pending _ _ _ _ Hsi Eu) as (p & Hp).
    apply (proj1 (outstanding_pending (ra s) Hia) Hout (ch, (id, p))). cbn [pend]. eauto. }
  destruct ty as [|rt|rt]; [exact I| |].
  - destruct Hmain as (r & outs & Hr & H & G & M & Hall); [discriminate|].
    rewrite <- G. unfold RecvRelP.mode in M. destruct (rr_order r) eqn:Eo; [|discriminate].
    eapply ordered_all_obtained; eauto.
  - destruct Hmain as (r & outs & Hr & H & G & M & Hall); [discriminate|].
    rewrite <- G. unfold RecvRelP.mode in M. destruct (rr_order r) as [|mr rcv] eqn:Eo; [discriminate|].
    eapply unordered_all_obtained; eauto.
Qed.

(* ================================================================== *)
(* 2. one good tick: the measure *)

Lemma tick_inv_conn_a cfg_ab cfg_ba s : tick_inv cfg_ab cfg_ba s -> conn_inv (ra s).
Proof. intros ((Hbase & _) & _). now destruct Hbase. Qed.

(* P: the parts transmitted (and therefore released) in this tick *)
Lemma good_tick_measure cfg_ab cfg_ba s dt s' :
  tick_inv cfg_ab cfg_ba s -> good_tick s dt = Ok s' -> alive s' = true -> cfg_resend_le cfg_ab dt = true ->
  tick_inv cfg_ab cfg_ba s' /\ drained (rb s') /\ sent_a s' = sent_a s /\
  unrel_queued (ra s') = false /\ c_budget (ra s') = c_budget (ra s) /\
  outstanding s' <= outstanding s /\
  (budget_suffices (ra s) = true -> outstanding s' = 0) /\
  (unrel_queued (ra s) = false -> SLICE_SIZE <= c_budget (ra s) ->
   outstanding s' = 0 \/ outstanding s' + parts_per_tick (ra s) <= outstanding s).
Proof.
  intros Hinv E Halive Hres.
  destruct (good_tick_effect cfg_ab cfg_ba s dt s' Hinv E Halive Hres)
    as (P & av & P1 & P2 & P3 & P4 & P5 & P6 & Hinv' & Hdr & Hsent & Hq & Hbud).
  pose proof (tick_inv_conn_a _ _ _ Hinv) as Hi. pose proof (tick_inv_conn_a _ _ _ Hinv') as Hi'.
  assert (Hcount : outstanding s' + len P <= outstanding s).
  { unfold outstanding. rewrite <- !len_pending_list. unfold len.
    pose proof (NoDup_incl_minus cpart_eq_dec (pending_list (ra s)) (pending_list (ra s')) P
                  (NoDup_pending_list _ Hi') P1) as H.
    assert (length (pending_list (ra s')) + length P <= length (pending_list (ra s)))%nat; [|lia].
    apply H.
    - intros y Hy. apply (in_pending_list _ _ Hi). auto.
    - intros y Hy. apply (in_pending_list _ _ Hi') in Hy. destruct (P3 y Hy) as [A B].
      split; [now apply (in_pending_list _ _ Hi)|exact B]. }
  assert (Hall : SLICE_SIZE <= av -> outstanding s' = 0).
  { intros Hge. apply (outstanding_pending _ Hi'). intros y Hy. destruct (P3 y Hy) as [A B]. apply B. now apply P4. }
  split; [exact Hinv'|]. split; [exact Hdr|]. split; [exact Hsent|]. split; [exact Hq|]. split; [exact Hbud|].
  split; [lia|]. split.
  - unfold budget_suffices. intros Hb. apply Hall. lia.
  - intros Hnq Hslice. specialize (P6 Hnq). destruct (N.le_gt_cases SLICE_SIZE av) as [Hge|Hlt]; [left; auto|right].
    unfold parts_per_tick. assert (c_budget (ra s) / SLICE_SIZE <= len P); [|lia].
    pose proof SMapSendP.SS_pos.
    assert (c_budget (ra s) / SLICE_SIZE < len P + 1) by (apply N.div_lt_upper_bound; lia). lia.
Qed.

(* ================================================================== *)
(* 3. several good ticks *)

Lemma good_tick_dm s dt s' : good_tick s dt = Ok s' -> dead_mono s s'.
Proof.
  unfold good_tick. intros E.
  destruct (sys_step s (SysApi SA (CUpdate dt))) as [s1| |] eqn:E1; cbn [bind] in E; try discriminate.
  destruct (sys_step s1 (SysApi SB (CUpdate dt))) as [s2| |] eqn:E2; cbn [bind] in E; try discriminate.
  destruct (flush_deliver SA s2) as [s3| |] eqn:E3; cbn [bind] in E; try discriminate.
  destruct (drain SB s3) as [s4| |] eqn:E4; cbn [bind] in E; try discriminate.
  destruct (flush_deliver SB s4) as [s5| |] eqn:E5; cbn [bind] in E; try discriminate.
  eapply dead_mono_trans; [eapply sys_step_dead; eauto|].
  eapply dead_mono_trans; [eapply sys_step_dead; eauto|].
  eapply dead_mono_trans; [eapply flush_deliver_dm; eauto|].
  eapply dead_mono_trans; [eapply drain_dm; eauto|].
  eapply dead_mono_trans; [eapply flush_deliver_dm; eauto|eapply drain_dm; eauto].
Qed.

Lemma good_ticks_dm dt : forall n s s', good_ticks n s dt = Ok s' -> dead_mono s s'.
Proof.
  induction n as [|n IH]; intros s s' E; cbn [good_ticks] in E; [injection E as <-; apply dead_mono_refl|].
  destruct (good_tick s dt) as [s1| |] eqn:E1; cbn [bind] in E; try discriminate.
  eapply dead_mono_trans; [eapply good_tick_dm; eauto|eauto].
Qed.

Lemma good_ticks_run cfg_ab cfg_ba dt : forall n s s',
  good_ticks n s dt = Ok s' -> tick_inv cfg_ab cfg_ba s -> alive s' = true -> cfg_resend_le cfg_ab dt = true ->
  tick_inv cfg_ab cfg_ba s' /\ sent_a s' = sent_a s /\ c_budget (ra s') = c_budget (ra s) /\
  outstanding s' <= outstanding s /\
  ((1 <= n)%nat -> drained (rb s') /\ unrel_queued (ra s') = false) /\
  (unrel_queued (ra s) = false -> SLICE_SIZE <= c_budget (ra s) ->
   outstanding s' = 0 \/ outstanding s' + N.of_nat n * parts_per_tick (ra s) <= outstanding s).
Proof.
  induction n as [|n IH]; intros s s' E Hinv Halive Hres; cbn [good_ticks] in E.
  - injection E as <-. split; [exact Hinv|]. split; [reflexivity|]. split; [reflexivity|]. split; [lia|].
    split; [lia|]. intros _ _. right. lia.
  - destruct (good_tick s dt) as [s1| |] eqn:E1; cbn [bind] in E; try discriminate.
    pose proof (dead_mono_alive _ _ (good_ticks_dm dt _ _ _ E) Halive) as Hal1.
    destruct (good_tick_measure cfg_ab cfg_ba s dt s1 Hinv E1 Hal1 Hres) as (A1 & A2 & A3 & A4 & A5 & A6 & _ & A8).
    destruct (IH s1 s' E A1 Halive Hres) as (B1 & B2 & B3 & B4 & B5 & B6).
    split; [exact B1|]. split; [congruence|]. split; [congruence|]. split; [lia|]. split.
    + intros _. destruct n as [|n'].
      * cbn [good_ticks] in E. injection E as <-. auto.
      * apply B5. lia.
    + intros Hq Hb. unfold parts_per_tick in *. rewrite A5 in B6.
      destruct (A8 Hq Hb) as [Hz|Hstep].
      * left. lia.
      * destruct (B6 A4 ltac:(lia)) as [Hz|Hrest]; [now left|right]. lia.
Qed.

(* ================================================================== *)
(* 4. the budget of a connection never changes *)

Lemma disconnect_with_budget c r : c_budget (disconnect_with c r) = c_budget c.
Proof. unfold disconnect_with. destruct (is_disconnected c); reflexivity. Qed.

Lemma cstep_budget c o c' out : conn_inv c -> is_process o = false -> cstep c o = Ok (c', out) -> c_budget c' = c_budget c.
Proof.
  intros Hi Hnp E. destruct o as [ch m|ch|dt|b| | | | |]; try discriminate; cbn [cstep] in E.
  - destruct (send_message c ch m) as [c1| |] eqn:E1; cbn [bind] in E; try discriminate. injection E as <- _.
    unfold send_message in E1. destruct (is_disconnected c); [now injection E1 as <-|].
    destruct (sm_find ch (c_sr c)).
    + destruct (sr_send s m); try discriminate; injection E1 as <-; [reflexivity|apply disconnect_with_budget].
    + destruct (sm_find ch (c_su c)); [|discriminate]. now injection E1 as <-.
  - destruct (receive_message c ch) as [[c1 mo]| |] eqn:E1; cbn [bind] in E; try discriminate. injection E as <- _.
    now destruct (receive_message_frame _ _ _ _ E1) as ((_ & _ & _ & _ & _ & _ & _ & F & _) & _).
  - destruct (update c dt) as [c1| |] eqn:E1; cbn [bind] in E; try discriminate. injection E as <- _.
    destruct (update_unfold c dt c1 E1) as (ru1 & sent1 & _ & _ & ->). reflexivity.
  - destruct (get_packets_to_send c) as [[c1 p]| |] eqn:E1; cbn [bind] in E; try discriminate. injection E as <- _.
    destruct (flush_shape c c1 p Hi E1) as [(_ & -> & _)|(_ & c2 & av & pk & Hrel & -> & _)]; [reflexivity|].
    destruct (gather_facts _ _ _ _ _ _ Hrel Hi) as (_ & _ & _ & _ & Hfr & _).
    destruct Hfr as (_ & _ & _ & _ & _ & _ & F & _).
    destruct (flush_state_frame c2 pk) as (_ & _ & _ & _ & _ & _ & _ & G & _). congruence.
  - injection E as <- _. unfold set_connected. destruct (is_disconnected c); reflexivity.
  - injection E as <- _. unfold set_connecting. destruct (is_disconnected c); reflexivity.
  - injection E as <- _. apply disconnect_with_budget.
  - injection E as <- _. apply disconnect_with_budget.
Qed.

Lemma process_packet_budget c bytes c' :
  conn_inv c -> (forall p, from_bytes bytes = Ok p -> packet_wf p) ->
  process_packet c bytes = Ok c' -> c_budget c' = c_budget c.
Proof.
  intros Hi Hwf E.
  destruct (process_packet_cases c bytes) as [(_ & E0)|[(_ & e & _ & E0)|(_ & p & Hp & E0)]]; rewrite E0 in E.
  - now injection E as <-.
  - injection E as <-. apply disconnect_with_budget.
  - specialize (Hwf p Hp).
    set (c1 := with_acks c (add_pending_ack (c_acks c) (packet_seq p))) in *.
    assert (Hi1 : conn_inv c1) by (apply inv_add_pending_ack; [exact Hi|now apply packet_wf_seq]).
    destruct (is_ack p) eqn:Ha.
    + destruct p as [| | | |sq rs]; try discriminate.
      destruct (process_ack_spec c1 sq rs Hi1 (packet_wf_ack_ranges _ _ Hwf)) as (c2 & l & E2 & _ & Hfr & _).
      rewrite E2 in E. injection E as <-. destruct Hfr as (_ & _ & _ & _ & _ & _ & F & _). exact F.
    + destruct (process_data_spec c1 p Hi1 Hwf Ha) as (c2 & E2 & _ & Hfr).
      rewrite E2 in E. injection E as <-. destruct Hfr as (_ & _ & _ & _ & _ & _ & _ & F). exact F.
Qed.

Lemma budget_step s o s' : base_inv s -> sys_step s o = Ok s' -> c_budget (ra s') = c_budget (ra s).
Proof.
  intros [Ha Hb Hua Hub Hwa Hwb] E. destruct o as [x op|x i]; cbn [sys_step] in E.
  - destruct (is_process op) eqn:Hnp; [now injection E as <-|].
    destruct x; cbn [conn_of] in E.
    + destruct (cstep (ra s) op) as [[c' out]| |] eqn:Ec; cbn [bind] in E; try discriminate.
      injection E as <-. cbn [upd_side ra]. eapply cstep_budget; eauto.
    + destruct (cstep (rb s) op) as [[c' out]| |] eqn:Ec; cbn [bind] in E; try discriminate.
      now injection E as <-.
  - destruct x.
    + destruct (nth_error (out_b s) i) as [bytes|] eqn:En; [|now injection E as <-].
      destruct (process_packet (ra s) bytes) as [c'| |] eqn:Ep; cbn [bind] in E; try discriminate.
      injection E as <-. cbn [ra]. eapply process_packet_budget; eauto.
      intros p Hp. eapply Hwb; [eapply nth_error_In; eauto|exact Hp].
    + destruct (nth_error (out_a s) i) as [bytes|] eqn:En; [|now injection E as <-].
      destruct (process_packet (rb s) bytes) as [c'| |] eqn:Ep; cbn [bind] in E; try discriminate.
      now injection E as <-.
Qed.

Lemma budget_run cfg_ab cfg_ba ops : forall s s', sys_inv cfg_ab cfg_ba s -> sys_run s ops = Ok s' ->
  c_budget (ra s') = c_budget (ra s).
Proof.
  induction ops as [|o t IH]; intros s s' Hs E; cbn [sys_run] in E; [now injection E as <-|].
  destruct (sys_step s o) as [s1| |] eqn:E1; cbn [bind] in E; try discriminate.
  rewrite (IH s1 s' (sys_inv_step _ _ _ _ _ Hs E1) E). destruct Hs as (Hb & _). eapply budget_step; eauto.
Qed.

Lemma budget_holds ba bb cfg_ab cfg_ba s0 ops s :
  cfg_u8 cfg_ab -> cfg_u8 cfg_ba -> sys_init ba bb cfg_ab cfg_ba = Ok s0 -> sys_run s0 ops = Ok s ->
  c_budget (ra s) = ba.
Proof.
  intros Hab Hba Hinit Hrun.
  rewrite (budget_run cfg_ab cfg_ba ops s0 s (sys_init_inv ba bb cfg_ab cfg_ba s0 Hab Hba Hinit) Hrun).
  unfold sys_init in Hinit. pose proof (conn_new_cases ba cfg_ab cfg_ba) as Hc.
  destruct (conn_new ba cfg_ab cfg_ba) as [a| |]; cbn [bind] in Hinit; try discriminate.
  destruct (conn_new bb cfg_ba cfg_ab) as [b| |]; cbn [bind] in Hinit; try discriminate.
  injection Hinit as <-. cbn [ra]. now destruct Hc as (_ & _ & _ & _ & _ & Hbud & _).
Qed.

(* ================================================================== *)
(* 5. the theorems *)

(* ---------- progress: the measure never grows and, with a budget of at least one slice,
   it shrinks by the number of parts one budget pays for (or reaches zero) ---------- *)
Theorem good_tick_progress : forall ba bb cfg_ab cfg_ba s0 ops s dt s',
  cfg_u8 cfg_ab -> cfg_u8 cfg_ba ->
  sys_init ba bb cfg_ab cfg_ba = Ok s0 -> sys_run s0 ops = Ok s -> Forall (sysop_ok cfg_ab cfg_ba) ops ->
  cfg_resend_le cfg_ab dt = true ->
  good_tick s dt = Ok s' -> alive s' = true ->
  outstanding s' <= outstanding s /\
  unrel_queued (ra s') = false /\
  (unrel_queued (ra s) = false -> SLICE_SIZE <= ba ->
   outstanding s' = 0 \/ (1 <= parts_per_tick (ra s) /\ outstanding s' + parts_per_tick (ra s) <= outstanding s)).
Proof.
  intros ba bb cfg_ab cfg_ba s0 ops s dt s' Hab Hba Hinit Hrun _ Hres E Halive.
  pose proof (tick_inv_holds ba bb cfg_ab cfg_ba s0 ops s Hab Hba Hinit Hrun) as Hinv.
  pose proof (budget_holds ba bb cfg_ab cfg_ba s0 ops s Hab Hba Hinit Hrun) as Hbud.
  destruct (good_tick_measure cfg_ab cfg_ba s dt s' Hinv E Halive Hres) as (_ & _ & _ & A4 & _ & A6 & _ & A8).
  split; [exact A6|]. split; [exact A4|]. intros Hq Hb. rewrite <- Hbud in Hb.
  destruct (A8 Hq Hb) as [Hz|Hs]; [now left|right]. split; [|exact Hs].
  unfold parts_per_tick. pose proof SMapSendP.SS_pos. apply N.div_le_lower_bound; lia.
Qed.

(* ---------- L1: one good tick suffices when the budget covers everything waiting ---------- *)
Theorem good_tick_delivers_budget_suffices : forall ba bb cfg_ab cfg_ba s0 ops s dt s',
  cfg_u8 cfg_ab -> cfg_u8 cfg_ba ->
  sys_init ba bb cfg_ab cfg_ba = Ok s0 -> sys_run s0 ops = Ok s -> Forall (sysop_ok cfg_ab cfg_ba) ops ->
  cfg_resend_le cfg_ab dt = true ->           (* dt >= the resend time of every reliable channel *)
  budget_suffices (ra s) = true ->            (* pending_bytes (ra s) + SLICE_SIZE <= budget of A *)
  good_tick s dt = Ok s' ->                   (* the tick (it ends with both applications polling) *)
  alive s' = true ->                          (* nobody got disconnected, before or during the tick *)
  outstanding s' = 0 /\ sent_a s' = sent_a s /\
  forall ch,
    match chan_kind cfg_ab ch with
    | Some (TReliableOrdered _) => log_get (got_b s') ch = log_get (sent_a s') ch
    | Some (TReliableUnordered _) => Permutation (log_get (got_b s') ch) (log_get (sent_a s') ch)
    | _ => True
    end.
Proof.
  intros ba bb cfg_ab cfg_ba s0 ops s dt s' Hab Hba Hinit Hrun _ Hres Hbs E Halive.
  pose proof (tick_inv_holds ba bb cfg_ab cfg_ba s0 ops s Hab Hba Hinit Hrun) as Hinv.
  destruct (good_tick_measure cfg_ab cfg_ba s dt s' Hinv E Halive Hres) as (A1 & A2 & A3 & _ & _ & _ & A7 & _).
  specialize (A7 Hbs). split; [exact A7|]. split; [exact A3|].
  exact (quiescent_obtained cfg_ab cfg_ba s' A1 A7 A2).
Qed.

(* ---------- L2: ticks_needed good ticks suffice with a budget of at least one slice ---------- *)
Lemma ticks_enough o k : 1 <= k -> o < (o / k + 1) * k.
Proof. intros Hk. pose proof (N.div_mod o k ltac:(lia)). pose proof (N.mod_lt o k ltac:(lia)). nia. Qed.

Lemma good_ticks_deliver_inv cfg_ab cfg_ba s dt s' :
  tick_inv cfg_ab cfg_ba s -> cfg_resend_le cfg_ab dt = true -> SLICE_SIZE <= c_budget (ra s) ->
  good_ticks (ticks_needed s) s dt = Ok s' -> alive s' = true ->
  outstanding s' = 0 /\ sent_a s' = sent_a s /\ obtained_all cfg_ab s'.
Proof.
  intros Hinv Hres Hb E Halive.
  assert (Hk : 1 <= parts_per_tick (ra s)).
  { unfold parts_per_tick. pose proof SMapSendP.SS_pos. apply N.div_le_lower_bound; lia. }
  set (o := outstanding s) in *. set (k := parts_per_tick (ra s)) in *.
  assert (Hfin : forall s1, tick_inv cfg_ab cfg_ba s1 -> unrel_queued (ra s1) = false ->
            c_budget (ra s1) = c_budget (ra s) -> outstanding s1 <= o -> sent_a s1 = sent_a s ->
            good_ticks (N.to_nat (o / k + 1)) s1 dt = Ok s' ->
            outstanding s' = 0 /\ sent_a s' = sent_a s /\ obtained_all cfg_ab s').
  { intros s1 Hinv1 Hq1 Hb1 Ho1 Hs1 E1.
    destruct (good_ticks_run cfg_ab cfg_ba dt _ s1 s' E1 Hinv1 Halive Hres) as (B1 & B2 & _ & _ & B5 & B6).
    pose proof (ticks_enough o k Hk) as Hen.
    assert (Hn : (1 <= N.to_nat (o / k + 1))%nat) by (generalize (o / k); clear; intros q; lia).
    destruct (B5 Hn) as [B5' _].
    assert (Hz : outstanding s' = 0).
    { assert (Hb1' : SLICE_SIZE <= c_budget (ra s1)) by (rewrite Hb1; exact Hb).
      destruct (B6 Hq1 Hb1') as [Hz|Hle]; [exact Hz|exfalso].
      unfold parts_per_tick in Hle. rewrite Hb1 in Hle. fold (parts_per_tick (ra s)) in Hle. fold k in Hle.
      rewrite N2Nat.id in Hle. revert Hle Hen Ho1. generalize ((o / k + 1) * k) (outstanding s') (outstanding s1).
      clear. intros a b c H1 H2 H3. lia. }
    split; [exact Hz|]. split; [congruence|]. exact (quiescent_obtained cfg_ab cfg_ba s' B1 Hz B5'). }
  unfold ticks_needed in E. fold o in E. fold k in E.
  destruct (unrel_queued (ra s)) eqn:Hq.
  - replace (N.to_nat (1 + o / k + 1)) with (S (N.to_nat (o / k + 1))) in E by lia.
    cbn [good_ticks] in E. destruct (good_tick s dt) as [s1| |] eqn:E1; cbn [bind] in E; try discriminate.
    pose proof (dead_mono_alive _ _ (good_ticks_dm dt _ _ _ E) Halive) as Hal1.
    destruct (good_tick_measure cfg_ab cfg_ba s dt s1 Hinv E1 Hal1 Hres) as (A1 & _ & A3 & A4 & A5 & A6 & _).
    apply (Hfin s1); auto.
  - replace (0 + o / k + 1) with (o / k + 1) in E by lia. apply (Hfin s); auto. lia.
Qed.

Theorem good_ticks_deliver : forall ba bb cfg_ab cfg_ba s0 ops s dt s',
  cfg_u8 cfg_ab -> cfg_u8 cfg_ba ->
  sys_init ba bb cfg_ab cfg_ba = Ok s0 -> sys_run s0 ops = Ok s -> Forall (sysop_ok cfg_ab cfg_ba) ops ->
  cfg_resend_le cfg_ab dt = true ->           (* dt >= the resend time of every reliable channel *)
  SLICE_SIZE <= ba ->                         (* A's budget per tick pays for at least one slice *)
  good_ticks (ticks_needed s) s dt = Ok s' ->
  alive s' = true ->                          (* nobody got disconnected *)
  outstanding s' = 0 /\ sent_a s' = sent_a s /\
  forall ch,
    match chan_kind cfg_ab ch with
    | Some (TReliableOrdered _) => log_get (got_b s') ch = log_get (sent_a s') ch
    | Some (TReliableUnordered _) => Permutation (log_get (got_b s') ch) (log_get (sent_a s') ch)
    | _ => True
    end.
Proof.
  intros ba bb cfg_ab cfg_ba s0 ops s dt s' Hab Hba Hinit Hrun _ Hres Hb E Halive.
  pose proof (tick_inv_holds ba bb cfg_ab cfg_ba s0 ops s Hab Hba Hinit Hrun) as Hinv.
  pose proof (budget_holds ba bb cfg_ab cfg_ba s0 ops s Hab Hba Hinit Hrun) as Hbud.
  apply (good_ticks_deliver_inv cfg_ab cfg_ba s dt s'); auto. lia.
Qed.

(* ---------- L3: after ANY history, every submitted message is eventually obtained ---------- *)
(* the messages the application of A passed to send_message on channel ch and the channel accepted
   are those of the log sent_a; whatever the network and the applications did before (ops), after
   ticks_needed good ticks the application of B has obtained all of them - in submission order on
   an ordered channel, each exactly once on an unordered one *)
Theorem eventually_delivered : forall ba bb cfg_ab cfg_ba s0 ops s dt s',
  cfg_u8 cfg_ab -> cfg_u8 cfg_ba ->
  sys_init ba bb cfg_ab cfg_ba = Ok s0 -> sys_run s0 ops = Ok s -> Forall (sysop_ok cfg_ab cfg_ba) ops ->
  cfg_resend_le cfg_ab dt = true -> SLICE_SIZE <= ba ->
  good_ticks (ticks_needed s) s dt = Ok s' ->
  alive s' = true ->
  (forall ch resend, chan_kind cfg_ab ch = Some (TReliableOrdered resend) ->
     log_get (got_b s') ch = log_get (sent_a s) ch) /\
  (forall ch resend, chan_kind cfg_ab ch = Some (TReliableUnordered resend) ->
     Permutation (log_get (got_b s') ch) (log_get (sent_a s) ch) /\
     exists ids, NoDup ids /\
       log_get (got_b s') ch = map (fun id => nth (N.to_nat id) (log_get (sent_a s) ch) []) ids) /\
  (forall ch m, In m (log_get (sent_a s) ch) -> In m (submitted SA ch ops)).
Proof.
  intros ba bb cfg_ab cfg_ba s0 ops s dt s' Hab Hba Hinit Hrun Hops Hres Hb E Halive.
  destruct (good_ticks_deliver ba bb cfg_ab cfg_ba s0 ops s dt s' Hab Hba Hinit Hrun Hops Hres Hb E Halive)
    as (_ & Hsent & Hall).
  split; [|split].
  - intros ch resend Hk. specialize (Hall ch). rewrite Hk in Hall. congruence.
  - intros ch resend Hk. specialize (Hall ch). rewrite Hk in Hall. rewrite Hsent in Hall. split; [exact Hall|].
    (* s' is itself reachable: reuse the exactly-once theorem of the safety development *)
    pose proof (tick_inv_holds ba bb cfg_ab cfg_ba s0 ops s Hab Hba Hinit Hrun) as Hinv.
    pose proof (budget_holds ba bb cfg_ab cfg_ba s0 ops s Hab Hba Hinit Hrun) as Hbud.
    assert (Hk1 : 1 <= parts_per_tick (ra s)).
    { unfold parts_per_tick. pose proof SMapSendP.SS_pos. apply N.div_le_lower_bound; lia. }
    destruct (good_ticks_run cfg_ab cfg_ba dt _ s s' E Hinv Halive Hres) as (((_ & Dab & _) & _) & _).
    unfold dir_inv in Dab. pose proof (chan_kind_ordf cfg_ab ch _ Hk ltac:(discriminate)) as Ho.
    pose proof (di_receiver _ _ _ _ _ _ _ _ _ _ _ _ _ Dab ch) as D3.
    destruct (sm_find ch (c_rr (rb s'))) as [r|]; [|congruence].
    destruct D3 as (o & Ho' & max & evs & outs & F & Eo & G). rewrite Ho in Ho'. injection Ho' as <-.
    destruct (RecvRelP.unordered_exactly_once _ max evs r outs false F Eo) as [Hnd Hok].
    exists (map fst outs). split; [exact Hnd|]. rewrite <- Hsent, <- G, map_map. apply map_ext_in.
    intros [id m] Hin. rewrite Forall_forall in Hok. specialize (Hok _ Hin). cbn [fst snd] in *.
    unfold msg_at in Hok. symmetry. now apply nth_error_nth.
  - intros ch m Hin. destruct (sent_a_submitted ops s0 s ch m Hrun Hin) as [H|H]; [|exact H].
    unfold sys_init in Hinit.
    destruct (conn_new ba cfg_ab cfg_ba); cbn [bind] in Hinit; try discriminate.
    destruct (conn_new bb cfg_ba cfg_ab); cbn [bind] in Hinit; try discriminate.
    injection Hinit as <-. destruct H.
Qed.

(* ================================================================== *)
(* 6. the fuel of the polling loop is never exhausted *)

Lemma sm_remove_length {V} k (v : V) m : sm_find k m = Some v -> length m = S (length (sm_remove k m)).
Proof.
  induction m as [|[k' v'] t IH]; cbn [sm_find sm_remove length]; [discriminate|].
  destruct (N.eqb_spec k k'); [reflexivity|]. intros H. cbn [length]. now rewrite (IH H).
Qed.

Lemma receive_some_buffered c ch c' m : receive_message c ch = Ok (c', Some m) -> S (buffered c' ch) = buffered c ch.
Proof.
  unfold receive_message, buffered. destruct (is_disconnected c); [discriminate|].
  destruct (sm_find ch (c_rr c)) as [r|] eqn:Hr.
  - destruct (rr_receive r) as [[r' m']| |] eqn:Er; try discriminate. intros [= <- ->].
    cbn [with_rr c_rr]. rewrite sm_find_insert_same. unfold rr_receive in Er.
    destruct (rr_order r) as [|mr rcv].
    + destruct (sm_find (rr_oldest r) (rr_messages r)) as [m0|] eqn:Ef; [|discriminate].
      destruct (sub_chk SITE_RECV_MEM_SUB (rr_mem r) (len m0)); cbn [bind] in Er; try discriminate.
      injection Er as <- _. cbn [rr_with rr_messages]. symmetry. eapply sm_remove_length; eauto.
    + destruct (rr_messages r) as [|[id m0] rest]; [discriminate|].
      destruct (if rr_oldest r =? id then advance_oldest (length rcv) (rr_oldest r) rcv else (rr_oldest r, rcv)) as [old' rcv'].
      destruct (sub_chk SITE_RECV_MEM_SUB (rr_mem r) (len m0)); cbn [bind] in Er; try discriminate.
      injection Er as <- _. reflexivity.
  - destruct (sm_find ch (c_ru c)) as [r|] eqn:Hu; [|discriminate].
    destruct (ru_receive r) as [[r' m']| |] eqn:Er; try discriminate. intros [= <- ->].
    cbn [with_ru c_rr c_ru]. rewrite Hr, sm_find_insert_same. unfold ru_receive in Er.
    destruct (ru_messages r) as [|m0 t]; [discriminate|].
    destruct (sub_chk SITE_RECV_MEM_SUB (ru_mem r) (len m0)); cbn [bind] in Er; try discriminate.
    injection Er as <- _. reflexivity.
Qed.

Lemma tick_inv_conn cfg_ab cfg_ba s x : tick_inv cfg_ab cfg_ba s -> conn_inv (conn_of s x).
Proof. intros ((Hbase & _) & _). destruct Hbase. now destruct x. Qed.

Lemma drain_chan_fuel_suffices cfg_ab cfg_ba x ch : forall fuel s,
  tick_inv cfg_ab cfg_ba s -> has_recv_channel (conn_of s x) ch = true ->
  (buffered (conn_of s x) ch < fuel)%nat ->
  exists s', drain_chan fuel x ch s = Ok s' /\ forall ch', has_recv_channel (conn_of s' x) ch' = has_recv_channel (conn_of s x) ch'.
Proof.
  induction fuel as [|f IH]; intros s Hinv Hch Hlt; [lia|]. cbn [drain_chan].
  pose proof (tick_inv_conn _ _ _ x Hinv) as Hi.
  destruct (receive_message_spec (conn_of s x) ch Hi Hch) as (c' & mo & Er & _).
  assert (Es : exists s1, sys_step s (SysApi x (CRecv ch)) = Ok s1).
  { cbn [sys_step is_process cstep]. rewrite Er. cbn [bind]. eauto. }
  destruct Es as (s1 & E1). rewrite E1. cbn [bind].
  pose proof (tick_inv_step _ _ _ _ _ Hinv E1) as Hinv1.
  destruct (sys_api_step s x (CRecv ch) s1 eq_refl E1) as (c1 & out & Ec & A1 & _ & _ & _ & A5 & _).
  cbn [cstep] in Ec. rewrite Er in Ec. cbn [bind] in Ec. injection Ec as <- <-.
  assert (Hsame : forall ch', has_recv_channel (conn_of s1 x) ch' = has_recv_channel (conn_of s x) ch').
  { intros ch'. rewrite A1. unfold has_recv_channel.
    destruct (receive_message_channels _ _ _ _ Er ch') as (_ & _ & B3 & B4). now rewrite B3, B4. }
  destruct (Nat.eqb (length (log_get (got_of s1 x) ch)) (length (log_get (got_of s x) ch))) eqn:El; [eauto|].
  rewrite A5 in El. cbn [got_upd] in El. destruct mo as [m|]; [|rewrite Nat.eqb_refl in El; discriminate].
  pose proof (receive_some_buffered _ _ _ _ Er) as Hb.
  destruct (IH s1 Hinv1) as (s' & E' & Hs').
  - rewrite Hsame. exact Hch.
  - rewrite A1. lia.
  - exists s'. split; [exact E'|]. intros ch'. now rewrite Hs', Hsame.
Qed.

(* polling every receive channel of a side always terminates normally *)
Theorem drain_succeeds cfg_ab cfg_ba x s : tick_inv cfg_ab cfg_ba s -> exists s', drain x s = Ok s'.
Proof.
  intros Hinv. unfold drain.
  assert (Hall : forall ch, In ch (recv_channels (conn_of s x)) -> has_recv_channel (conn_of s x) ch = true).
  { intros ch Hin. unfold recv_channels in Hin. unfold has_recv_channel. apply in_app_or in Hin.
    destruct Hin as [Hin|Hin]; apply sm_mem_in in Hin; rewrite Hin; [reflexivity|apply orb_true_r]. }
  revert Hall. generalize (recv_channels (conn_of s x)). intros chs. revert s Hinv.
  induction chs as [|ch t IH]; intros s Hinv Hall; cbn [drain_chans]; [eauto|].
  destruct (drain_chan_fuel_suffices cfg_ab cfg_ba x ch (S (buffered (conn_of s x) ch)) s Hinv) as (s1 & E1 & Hs1);
    [apply Hall; now left|lia|].
  rewrite E1. cbn [bind]. apply IH.
  - destruct (drain_chan_run cfg_ab cfg_ba x ch _ s s1 E1 Hinv) as (A & _). exact A.
  - intros ch' Hin. rewrite Hs1. apply Hall. now right.
Qed.

(* ================================================================== *)
(* 6b. good ticks are ordinary runs of the system: a list of sys_step operations *)

Lemma sys_run_app ops1 : forall ops2 s s1 s2, sys_run s ops1 = Ok s1 -> sys_run s1 ops2 = Ok s2 -> sys_run s (ops1 ++ ops2) = Ok s2.
Proof.
  induction ops1 as [|o t IH]; intros ops2 s s1 s2 E1 E2; cbn [sys_run app] in *.
  - injection E1 as <-. exact E2.
  - destruct (sys_step s o) as [s'| |]; cbn [bind] in *; try discriminate. eapply IH; eauto.
Qed.

Lemma deliver_from_is_run x : forall n i s s', deliver_from x i n s = Ok s' ->
  sys_run s (map (SysDeliver x) (seq i n)) = Ok s'.
Proof.
  induction n as [|n IH]; intros i s s' E; cbn [deliver_from seq map sys_run] in *; [exact E|].
  destruct (sys_step s (SysDeliver x i)) as [s1| |]; cbn [bind] in *; try discriminate. now apply IH.
Qed.

Lemma flush_deliver_is_run x s s' : flush_deliver x s = Ok s' -> exists ops, sys_run s ops = Ok s'.
Proof.
  unfold flush_deliver. intros E.
  destruct (sys_step s (SysApi x CFlush)) as [s1| |] eqn:E1; cbn [bind] in E; try discriminate.
  eexists (SysApi x CFlush :: _). cbn [sys_run]. rewrite E1. cbn [bind]. eapply deliver_from_is_run; eauto.
Qed.

Lemma drain_chan_is_run x ch : forall fuel s s', drain_chan fuel x ch s = Ok s' ->
  exists k, sys_run s (repeat (SysApi x (CRecv ch)) k) = Ok s'.
Proof.
  induction fuel as [|f IH]; intros s s' E; cbn [drain_chan] in E; [discriminate|].
  destruct (sys_step s (SysApi x (CRecv ch))) as [s1| |] eqn:E1; cbn [bind] in E; try discriminate.
  destruct (Nat.eqb _ _).
  - injection E as <-. exists 1%nat. cbn [repeat sys_run]. now rewrite E1.
  - destruct (IH s1 s' E) as (k & Ek). exists (S k). cbn [repeat sys_run]. now rewrite E1.
Qed.

Lemma drain_is_run x s s' : drain x s = Ok s' -> exists ops, sys_run s ops = Ok s'.
Proof.
  unfold drain. generalize (recv_channels (conn_of s x)). intros chs. revert s.
  induction chs as [|ch t IH]; intros s E; cbn [drain_chans] in E.
  - injection E as <-. now exists [].
  - destruct (drain_chan _ x ch s) as [s1| |] eqn:E1; cbn [bind] in E; try discriminate.
    destruct (drain_chan_is_run _ _ _ _ _ E1) as (k & Ek). destruct (IH s1 E) as (ops & Eo).
    eexists. eapply sys_run_app; eauto.
Qed.

Lemma good_tick_is_run s dt s' : good_tick s dt = Ok s' -> exists ops, sys_run s ops = Ok s'.
Proof.
  unfold good_tick. intros E.
  destruct (sys_step s (SysApi SA (CUpdate dt))) as [s1| |] eqn:E1; cbn [bind] in E; try discriminate.
  destruct (sys_step s1 (SysApi SB (CUpdate dt))) as [s2| |] eqn:E2; cbn [bind] in E; try discriminate.
  destruct (flush_deliver SA s2) as [s3| |] eqn:E3; cbn [bind] in E; try discriminate.
  destruct (drain SB s3) as [s4| |] eqn:E4; cbn [bind] in E; try discriminate.
  destruct (flush_deliver SB s4) as [s5| |] eqn:E5; cbn [bind] in E; try discriminate.
  destruct (flush_deliver_is_run _ _ _ E3) as (o3 & R3). destruct (drain_is_run _ _ _ E4) as (o4 & R4).
  destruct (flush_deliver_is_run _ _ _ E5) as (o5 & R5). destruct (drain_is_run _ _ _ E) as (o6 & R6).
  exists ([SysApi SA (CUpdate dt); SysApi SB (CUpdate dt)] ++ o3 ++ o4 ++ o5 ++ o6).
  eapply sys_run_app; [cbn [sys_run]; rewrite E1; cbn [bind]; rewrite E2; reflexivity|].
  eapply sys_run_app; [exact R3|]. eapply sys_run_app; [exact R4|]. eapply sys_run_app; eauto.
Qed.

Theorem good_ticks_is_run dt : forall n s s', good_ticks n s dt = Ok s' -> exists ops, sys_run s ops = Ok s'.
Proof.
  induction n as [|n IH]; intros s s' E; cbn [good_ticks] in E.
  - injection E as <-. now exists [].
  - destruct (good_tick s dt) as [s1| |] eqn:E1; cbn [bind] in E; try discriminate.
    destruct (good_tick_is_run _ _ _ E1) as (o1 & R1). destruct (IH s1 s' E) as (o2 & R2).
    eexists. eapply sys_run_app; eauto.
Qed.

(* ================================================================== *)
(* 7. non-vacuity: a concrete run *)

(* one ordered reliable channel, resend time 100 ms; A submits a 2-byte, a 3000-byte (3 slices) and a
   1-byte message and flushes; of this first transmission only slice 2 reaches B - twice - and B's
   Ack packet is lost as well; 50 ms later A flushes again (nothing is due yet).  Then good ticks
   of 100 ms. *)
Definition lx_cfg : list chan_config := [ {| cc_id := 0; cc_max := 100000; cc_type := TReliableOrdered 100000000 |} ].
Definition lx_big : list N := repeat 7 (N.to_nat 3000).
Definition lx_dt : N := 100000000.
Definition lx_history : list sysop :=
  [ SysApi SA (CSend 0 [1; 2]); SysApi SA (CSend 0 lx_big); SysApi SA (CSend 0 [3]);
    SysApi SA CFlush;
    SysDeliver SB 2; SysDeliver SB 2; SysApi SB CFlush;
    SysApi SA (CUpdate 50000000); SysApi SA CFlush ].

Definition lx_run (budget : N) (ticks : rsys -> nat) : pres (rsys * rsys) :=
  do s0 <- sys_init budget 60000 lx_cfg lx_cfg;
  do s <- sys_run s0 lx_history;
  do s' <- good_ticks (ticks s) s lx_dt;
  Ok (s, s').

Definition lx_summary (r : pres (rsys * rsys)) :=
  match r with
  | Ok (s, s') => Some (outstanding s, budget_suffices (ra s), ticks_needed s, log_get (got_b s) 0,
                        alive s', outstanding s', log_get (got_b s') 0, log_get (sent_a s') 0)
  | _ => None
  end.

(* the default budget: one tick (L1 applies: budget_suffices holds) *)
Example good_tick_example :
  lx_summary (lx_run 60000 (fun _ => 1%nat)) =
  Some (5, true, 1%nat, [], true, 0, [[1; 2]; lx_big; [3]], [[1; 2]; lx_big; [3]]).
Proof. vm_compute. reflexivity. Qed.

(* the smallest budget that makes progress, 1200 bytes per tick: ticks_needed = 6 ticks *)
Example good_ticks_example :
  lx_summary (lx_run 1200 ticks_needed) =
  Some (5, false, 6%nat, [], true, 0, [[1; 2]; lx_big; [3]], [[1; 2]; lx_big; [3]]).
Proof. vm_compute. reflexivity. Qed.

(* the hypotheses of the theorems are decided by computation for a concrete configuration ... *)
Example lx_hypotheses :
  cfg_u8 lx_cfg /\ Forall (sysop_ok lx_cfg lx_cfg) lx_history /\ cfg_resend_le lx_cfg lx_dt = true /\ SLICE_SIZE <= 1200.
Proof.
  split; [repeat constructor|].
  split; [repeat constructor; cbn [sysop_ok chan_kind lx_cfg find cc_id]; discriminate|].
  split; [reflexivity|]. rewrite SMapSendP.SS_value. lia.
Qed.

(* ... so that L3 applies to the run above *)
Example lx_by_theorem : forall s0 s s',
  sys_init 1200 60000 lx_cfg lx_cfg = Ok s0 -> sys_run s0 lx_history = Ok s ->
  good_ticks (ticks_needed s) s lx_dt = Ok s' -> alive s' = true ->
  log_get (got_b s') 0 = log_get (sent_a s) 0.
Proof.
  intros s0 s s' Hinit Hrun Hticks Halive. destruct lx_hypotheses as (H1 & H2 & H3 & H4).
  destruct (eventually_delivered 1200 60000 lx_cfg lx_cfg s0 lx_history s lx_dt s' H1 H1 Hinit Hrun H2 H3 H4 Hticks Halive)
    as (Hord & _).
  apply (Hord 0 100000000). reflexivity.
Qed.

(* ================================================================== *)
(* 8. statements that are FALSE of the model, with their witnesses *)

(* (a) "every good tick makes progress" is false below one slice of budget: with 1199 bytes per
   tick the three slices are never transmitted, on a perfect network, for as many ticks as one
   likes (here 10); the small message 2 behind them has arrived and is acknowledged but, the
   channel being ordered, is not handed over either *)
Example progress_without_slice_budget_refuted :
  exists s0 s s',
    sys_init 1199 60000 lx_cfg lx_cfg = Ok s0 /\ sys_run s0 lx_history = Ok s /\
    good_ticks 10 s lx_dt = Ok s' /\ alive s' = true /\
    outstanding s = 5 /\ outstanding s' = 3 /\
    log_get (got_b s') 0 = [[1; 2]] /\ log_get (sent_a s') 0 = [[1; 2]; lx_big; [3]].
Proof.
  eexists; eexists; eexists. split; [vm_compute; reflexivity|]. split; [vm_compute; reflexivity|].
  split; [vm_compute; reflexivity|]. vm_compute. repeat split; reflexivity.
Qed.

(* (b) "a budget equal to the bytes waiting suffices for one tick" is false: the slice loop wants
   SLICE_SIZE bytes of budget left before it sends a slice, however short that slice is.  3003
   bytes are waiting; with a budget of 3003 the last slice (600 bytes) stays behind *)
Example budget_without_slack_refuted :
  exists s0 s s',
    sys_init 3003 60000 lx_cfg lx_cfg = Ok s0 /\ sys_run s0 lx_history = Ok s /\
    good_tick s lx_dt = Ok s' /\ alive s' = true /\
    pending_bytes (ra s) = 3003 /\ c_budget (ra s) = 3003 /\ outstanding s' = 1.
Proof.
  eexists; eexists; eexists. split; [vm_compute; reflexivity|]. split; [vm_compute; reflexivity|].
  split; [vm_compute; reflexivity|]. vm_compute. repeat split; reflexivity.
Qed.

(* (c) "with the same channel configuration on both sides nobody gets disconnected on a perfect
   network" is false, so that the hypothesis [alive s' = true] of the theorems cannot be derived
   from the configuration: the sender accounts for the bytes of a message, the receiver reserves
   whole slices.  On a channel limited to 3000 bytes the sender accepts a 2500-byte message; its
   first slice makes the receiver reserve 3 * 1200 = 3600 bytes, which exceeds the same limit, and
   the receiver disconnects with ReliableChannelMaxMemoryReached *)
Definition mx_cfg : list chan_config := [ {| cc_id := 0; cc_max := 3000; cc_type := TReliableOrdered 100000000 |} ].

Example alive_not_implied_by_configuration_refuted :
  exists s0 s s',
    sys_init 60000 60000 mx_cfg mx_cfg = Ok s0 /\
    sys_run s0 [SysApi SA (CSend 0 (repeat 7 (N.to_nat 2500)))] = Ok s /\
    good_tick s lx_dt = Ok s' /\
    map (@length N) (log_get (sent_a s) 0) = [2500%nat] /\ alive s = true /\
    c_status (rb s') = Disconnected (RReceiveChannelError 0 ReliableChannelMaxMemoryReached) /\
    log_get (got_b s') 0 = [].
Proof.
  eexists; eexists; eexists. split; [vm_compute; reflexivity|]. split; [vm_compute; reflexivity|].
  split; [vm_compute; reflexivity|]. vm_compute. repeat split; reflexivity.
Qed.

(* ================================================================== *)
Print Assumptions good_tick_effect.
Print Assumptions good_tick_progress.
Print Assumptions good_tick_delivers_budget_suffices.
Print Assumptions good_ticks_deliver.
Print Assumptions eventually_delivered.
Print Assumptions drain_succeeds.
Print Assumptions good_ticks_is_run.
Print Assumptions good_tick_example.
Print Assumptions good_ticks_example.
Print Assumptions lx_hypotheses.
Print Assumptions lx_by_theorem.
Print Assumptions progress_without_slice_budget_refuted.
Print Assumptions budget_without_slack_refuted.
Print Assumptions alive_not_implied_by_configuration_refuted.
