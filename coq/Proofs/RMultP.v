(* RMultP.v - multiplicity on an Unreliable channel (Spec/RMultSpec.v): a message is obtained at
   most as many times as the network delivered each of the packets carrying it; a lost slice
   loses the whole message.  The accounting invariant mult_inv is kept by every system step. *)
From RenetV Require Import Base Consts Varint Packet Channels Conn Server.
From RenetV Require Import CodecSpec RecvSpec SendSpec ConnSpec ConnInvSpec RSysSpec RSysInvSpec RMultSpec.
From RenetV Require Import SMapP ConnBaseP ConnProcP ConnFlushP ConnP RSysBaseP RSysStepP RSysInvP RSysP.
From RenetV Require AcksP VarintP PacketP RecvRelP RecvUnrelP SMapSendP SendRelP SendUnrelP DisconnectP ConnEncP SliceP.
Require Import Lia ZifyBool ZifyN ZifyNat.
Open Scope N_scope.

Arguments N.add : simpl never.
Arguments N.sub : simpl never.
Arguments N.mul : simpl never.
Arguments N.div : simpl never.
Arguments N.modulo : simpl never.
Arguments N.eqb : simpl never.
Arguments N.ltb : simpl never.
Arguments N.leb : simpl never.
Local Opaque SLICE_SIZE MAX_ACK_RANGES SER_BUFFER NC_MAX_PAYLOAD_BYTES DISCARD_PACKET_SECS VARINT_MAX MAX_NUM_SLICES.

(* ================================================================== *)
(* 1. counting *)

Lemma occ_app a b m : occ (a ++ b) m = (occ a m + occ b m)%nat.
Proof. unfold occ. apply count_occ_app. Qed.

Lemma occ_one x m : occ [x] m = if msg_eq_dec x m then 1%nat else 0%nat.
Proof. unfold occ. cbn [count_occ]. destruct (msg_eq_dec x m); reflexivity. Qed.

Lemma occ_cons x t m : occ (x :: t) m = ((if msg_eq_dec x m then 1 else 0) + occ t m)%nat.
Proof. unfold occ. cbn [count_occ]. destruct (msg_eq_dec x m); reflexivity. Qed.

Lemma occ_nil m : occ [] m = 0%nat.
Proof. reflexivity. Qed.

Lemma occ_zero l m : (forall x, In x l -> x <> m) -> occ l m = 0%nat.
Proof. intros H. unfold occ. apply count_occ_not_In. intros Hin. exact (H m Hin eq_refl). Qed.

Lemma occ_pos_in l m : (0 < occ l m)%nat <-> In m l.
Proof. unfold occ. symmetry. apply count_occ_In. Qed.

Lemma list_sum_cons x l : list_sum (x :: l) = (x + list_sum l)%nat.
Proof. reflexivity. Qed.

Lemma dlv_sum_app f oa d d' : dlv_sum f oa (d ++ d') = (dlv_sum f oa d + dlv_sum f oa d')%nat.
Proof. unfold dlv_sum. rewrite map_app, list_sum_app. reflexivity. Qed.

Lemma dlv_sum_one f oa i b : nth_error oa i = Some b -> dlv_sum f oa [i] = f b.
Proof. intros H. unfold dlv_sum. cbn [map]. rewrite list_sum_cons, H. cbn [list_sum fold_right]. lia. Qed.

Lemma dlv_sum_snoc f oa d i b : nth_error oa i = Some b -> dlv_sum f oa (d ++ [i]) = (dlv_sum f oa d + f b)%nat.
Proof. intros H. rewrite dlv_sum_app, (dlv_sum_one f oa i b H). reflexivity. Qed.

Lemma dlv_sum_oa_mono f oa more d : (dlv_sum f oa d <= dlv_sum f (oa ++ more) d)%nat.
Proof.
  unfold dlv_sum. induction d as [|i t IH]; cbn [map]; [lia|]. rewrite !list_sum_cons.
  destruct (nth_error oa i) as [b|] eqn:E.
  - rewrite (nth_error_app_some oa more i b E). lia.
  - lia.
Qed.

Lemma dlv_sum_dlv_mono f oa d more : (dlv_sum f oa d <= dlv_sum f oa (d ++ more))%nat.
Proof. rewrite dlv_sum_app. lia. Qed.

(* ---------- counting over the sorted association lists ---------- *)
Section Cnt.
  Context {V : Type} (g : V -> bool).
  Definition cnt (l : list (N * V)) : nat := length (filter (fun e => g (snd e)) l).
  Definition b2n (b : bool) : nat := if b then 1%nat else 0%nat.

  Lemma cnt_cons k v l : cnt ((k, v) :: l) = (b2n (g v) + cnt l)%nat.
  Proof. unfold cnt. cbn [filter snd]. destruct (g v); reflexivity. Qed.

  Lemma cnt_insert_new k v l : sm_find k l = None -> cnt (sm_insert k v l) = (cnt l + b2n (g v))%nat.
  Proof.
    induction l as [|[k' v'] t IH]; intros Hf; cbn [sm_insert].
    - rewrite cnt_cons. unfold cnt. cbn [filter length]. lia.
    - cbn [sm_find] in Hf. destruct (N.eqb_spec k k') as [->|Hne]; [discriminate|].
      destruct (k <? k').
      + rewrite (cnt_cons k v). lia.
      + rewrite !cnt_cons, (IH Hf). lia.
  Qed.

  Lemma cnt_insert_same k v c l : asc (map fst l) -> sm_find k l = Some c ->
    (cnt (sm_insert k v l) + b2n (g c) = cnt l + b2n (g v))%nat.
  Proof.
    induction l as [|[k' v'] t IH]; intros Ha Hf; [discriminate|].
    cbn [map fst] in Ha. destruct Ha as [Hlt Ha]. cbn [sm_insert]. cbn [sm_find] in Hf.
    destruct (N.ltb_spec k k') as [Hk|Hk].
    - exfalso. destruct (N.eqb_spec k k') as [->|Hne]; [lia|].
      rewrite sm_find_lt_none in Hf; [discriminate|].
      eapply Forall_impl; [|exact Hlt]. intros a Ha'. cbn beta in Ha'. lia.
    - destruct (N.eqb_spec k k') as [->|Hne].
      + injection Hf as <-. rewrite !cnt_cons. lia.
      + rewrite !cnt_cons. specialize (IH Ha Hf). lia.
  Qed.

  Lemma cnt_remove k c l : sm_find k l = Some c -> (cnt (sm_remove k l) + b2n (g c) = cnt l)%nat.
  Proof.
    induction l as [|[k' v'] t IH]; intros Hf; [discriminate|].
    cbn [sm_remove]. cbn [sm_find] in Hf. destruct (N.eqb_spec k k') as [->|Hne].
    - injection Hf as <-. rewrite cnt_cons. lia.
    - rewrite !cnt_cons. specialize (IH Hf). lia.
  Qed.

  Lemma cnt_remove_le k l : (cnt (sm_remove k l) <= cnt l)%nat.
  Proof.
    induction l as [|[k' v'] t IH]; [cbn; lia|].
    cbn [sm_remove]. destruct (k =? k'); rewrite ?cnt_cons; lia.
  Qed.
End Cnt.

Lemma ctor_cnt_cnt sl m idx : ctor_cnt sl m idx = cnt (ctor_holds m idx) sl.
Proof. reflexivity. Qed.

(* ================================================================== *)
(* 2. the potential of one unreliable receive channel *)

Definition held (r : recv_unrel) (m : list N) (idx : N) : nat :=
  (occ (ru_messages r) m + ctor_cnt (ru_slices r) m idx)%nat.

(* a constructor fed with slices of m2 holds slice idx of m iff ... *)
Lemma ctor_holds_iff m2 c m idx : ctor_ok' m2 c ->
  ctor_holds m idx c = true <->
  (num_slices_of m2 = num_slices_of m /\ SliceP.has c idx /\ slice_payload m2 idx = slice_payload m idx).
Proof.
  intros [O1 O2]. unfold ctor_holds, SliceP.has. rewrite andb_true_iff, N.eqb_eq, O1.
  destruct (nth_error (sc_chunks c) (N.to_nat idx)) as [[x|]|] eqn:En.
  - pose proof (O2 _ _ En) as Hx. rewrite N2Nat.id in Hx. subst x.
    destruct (msg_eq_dec (slice_payload m2 idx) (slice_payload m idx)) as [e|ne].
    + split; [intros [H _]; eauto|intros (H & _ & _); auto].
    + split; [intros [_ H]; discriminate|intros (_ & _ & H); contradiction].
  - split; [intros [_ H]; discriminate|intros (_ & (x & Hx) & _); discriminate].
  - split; [intros [_ H]; discriminate|intros (_ & (x & Hx) & _); discriminate].
Qed.

Lemma ctor_holds_new m idx n : ctor_holds m idx (sctor_new n) = false.
Proof.
  unfold ctor_holds, sctor_new. cbn [sc_num sc_chunks].
  destruct (nth_error (repeatN None (N.to_nat n)) (N.to_nat idx)) as [[x|]|] eqn:En;
    [|apply andb_false_r|apply andb_false_r].
  apply nth_error_repeatN in En. discriminate.
Qed.

Lemma slice_is_of m idx m2 sid idx' :
  slice_is m idx (slice_of m2 sid idx') =
  (idx' =? idx) && (num_slices_of m2 =? num_slices_of m) &&
  (if msg_eq_dec (slice_payload m2 idx') (slice_payload m idx) then true else false).
Proof. reflexivity. Qed.

(* the common tail of ru_process_slice on a slice of m2: what the channel holds grows by at most
   the delivery just made *)
Lemma ru_body_acct r1 sid idx' m2 c now r' :
  asc (map fst (ru_slices r1)) -> sm_find sid (ru_slices r1) = Some c ->
  sctor_wf c -> ctor_ok' m2 c -> SLICE_SIZE < len m2 -> idx' < num_slices_of m2 ->
  RecvUnrelP.ru_body r1 sid idx' (slice_payload m2 idx') now c = Ok r' ->
  (forall m, len m <= SLICE_SIZE -> occ (ru_messages r') m = occ (ru_messages r1) m) /\
  (forall m idx, idx < num_slices_of m ->
     (held r' m idx <= held r1 m idx + b2n (slice_is m idx (slice_of m2 sid idx')))%nat).
Proof.
  intros Hasc Hf Hwf Hok Hl Hidx E. unfold RecvUnrelP.ru_body in E.
  pose proof (SliceP.sctor_process_honest m2 c idx' Hl Hwf Hok Hidx) as P.
  destruct (sctor_process c idx' (slice_payload m2 idx')) as [[c' [m'|]]|e|s]; try contradiction.
  - (* the message is complete *)
    destruct P as [-> Hall].
    destruct (sub_chk SITE_RECV_MEM_SUB (ru_mem r1) (sc_num c * SLICE_SIZE)) as [mem| |]; cbn [bind] in E; try discriminate.
    injection E as <-. unfold held. cbn [ru_with ru_messages ru_slices]. split.
    + intros m Hm. rewrite occ_app, occ_one. destruct (msg_eq_dec m2 m) as [->|_]; lia.
    + intros m idx Hi. rewrite occ_app, occ_one, !ctor_cnt_cnt.
      pose proof (cnt_remove (ctor_holds m idx) sid c (ru_slices r1) Hf) as Hc.
      destruct (msg_eq_dec m2 m) as [->|_]; [|lia].
      destruct (Hall idx Hi) as [Hhas| ->].
      * assert (Hh : ctor_holds m idx c = true) by (apply (ctor_holds_iff m c m idx Hok); auto).
        rewrite Hh in Hc. cbn [b2n] in Hc. lia.
      * rewrite slice_is_of, !N.eqb_refl. cbn [andb].
        destruct (msg_eq_dec (slice_payload m idx') (slice_payload m idx')); [cbn [b2n]; lia|contradiction].
  - (* still partial *)
    destruct P as (Hwf' & Hok' & Hnum & Hhas). injection E as <-. unfold held.
    cbn [ru_with ru_messages ru_slices]. split; [reflexivity|].
    intros m idx Hi. rewrite !ctor_cnt_cnt.
    pose proof (cnt_insert_same (ctor_holds m idx) sid c' c (ru_slices r1) Hasc Hf) as Hc.
    destruct (ctor_holds m idx c') eqn:Hh'; [|cbn [b2n] in Hc; lia].
    apply (ctor_holds_iff m2 c' m idx Hok') in Hh'. destruct Hh' as (Hn & Hh & Hp).
    apply Hhas in Hh. destruct Hh as [Hh| ->].
    + assert (Hh0 : ctor_holds m idx c = true) by (apply (ctor_holds_iff m2 c m idx Hok); auto).
      rewrite Hh0 in Hc. cbn [b2n] in Hc. lia.
    + rewrite slice_is_of, N.eqb_refl, Hn, N.eqb_refl. cbn [andb].
      destruct (msg_eq_dec (slice_payload m2 idx') (slice_payload m idx')); [cbn [b2n] in *; lia|contradiction].
Qed.

Lemma ru_process_slice_acct oa sent ch r now bytes sq sl r' :
  ru_inv now r -> ru_ok_one oa sent ch r -> unrel_out_ok oa sent ->
  In bytes oa -> from_bytes bytes = Ok (UnreliableSlice sq ch sl) ->
  ru_process_slice r sl now = Ok r' ->
  (forall m, len m <= SLICE_SIZE -> occ (ru_messages r') m = occ (ru_messages r) m) /\
  (forall m idx, idx < num_slices_of m -> (held r' m idx <= held r m idx + b2n (slice_is m idx sl))%nat).
Proof.
  intros Hinv [Hmsgs Hctors] Hout Hin Hp E.
  destruct (Hout bytes sq ch sl Hin Hp) as (m0 & Hm0 & Hl & Hidx & Hsid).
  pose proof (Hsid bytes sq sl Hin Hp eq_refl) as Hsl.
  pose proof Hinv as (_ & _ & Hwfs & _ & _ & Hasc & _).
  rewrite RecvUnrelP.ru_process_slice_unfold in E.
  destruct (sm_find (sl_id sl) (ru_slices r)) as [c|] eqn:Ec.
  - rewrite Ec in E.
    destruct (Hctors _ _ Ec) as (m1 & Hm1 & Hl1 & Hok1 & Hsid1 & _).
    pose proof (Hsid1 bytes sq sl Hin Hp eq_refl) as Hsl1.
    assert (Hnum : num_slices_of m1 = num_slices_of m0).
    { rewrite Hsl in Hsl1. apply (f_equal sl_num) in Hsl1. cbn [slice_of sl_num] in Hsl1. congruence. }
    pose proof (Forall_sm_find _ _ _ _ Hwfs Ec) as Hwf. cbn [snd] in Hwf.
    replace (sl_payload sl) with (slice_payload m1 (sl_index sl)) in E by (rewrite Hsl1 at 2; reflexivity).
    destruct (ru_body_acct r (sl_id sl) (sl_index sl) m1 c now r') as [A B]; auto; [lia|].
    rewrite <- Hsl1 in B. auto.
  - destruct (ru_max r <? ru_mem r + sl_num sl * SLICE_SIZE).
    { injection E as <-. split; [reflexivity|]. intros m idx _. lia. }
    cbn [ru_with ru_slices] in E. rewrite sm_find_insert_same in E.
    assert (Hnum : sl_num sl = num_slices_of m0) by (rewrite Hsl; reflexivity).
    destruct (SliceP.num_bounds m0 Hl) as (_ & _ & B3).
    replace (sl_payload sl) with (slice_payload m0 (sl_index sl)) in E by (rewrite Hsl at 2; reflexivity).
    set (r1 := ru_with r (ru_messages r) (sm_insert (sl_id sl) (sctor_new (sl_num sl)) (ru_slices r))
                       (ru_last r) (ru_mem r + sl_num sl * SLICE_SIZE)) in *.
    assert (Hheld : forall m idx, held r1 m idx = held r m idx).
    { intros m idx. unfold held, r1. cbn [ru_with ru_messages ru_slices]. rewrite !ctor_cnt_cnt.
      rewrite (cnt_insert_new (ctor_holds m idx) _ _ _ Ec), ctor_holds_new. cbn [b2n]. lia. }
    destruct (ru_body_acct r1 (sl_id sl) (sl_index sl) m0 (sctor_new (sl_num sl)) now r') as [A B]; auto.
    + unfold r1. cbn [ru_with ru_slices]. now apply asc_sm_insert.
    + unfold r1. cbn [ru_with ru_slices]. apply sm_find_insert_same.
    + apply SliceP.sctor_new_wf. lia.
    + rewrite Hnum. apply SliceP.ctor_ok_new.
    + rewrite <- Hsl in B. split; [exact A|]. intros m idx Hi. specialize (B m idx Hi).
      rewrite Hheld in B. exact B.
Qed.

(* SmallUnreliable: the queue grows by a subsequence of the carried messages *)
Lemma process_unrel_msgs_acct ms : forall r,
  ru_slices (process_unrel_msgs r ms) = ru_slices r /\
  forall m, (occ (ru_messages (process_unrel_msgs r ms)) m <= occ (ru_messages r) m + occ ms m)%nat.
Proof.
  induction ms as [|x t IH]; intros r; cbn [process_unrel_msgs].
  - split; [reflexivity|]. intros m. lia.
  - destruct (IH (ru_process_message r x)) as [A B]. unfold ru_process_message in *.
    destruct (ru_max r <? ru_mem r + len x).
    + split; [exact A|]. intros m. specialize (B m). rewrite occ_cons. lia.
    + cbn [ru_with ru_slices ru_messages] in *. split; [exact A|].
      intros m. specialize (B m). rewrite occ_app, occ_one in B. rewrite occ_cons. lia.
Qed.

(* discarding stale reassemblies only lowers the potential *)
Lemma discard_loop_acct now : forall la r r',
  ru_discard_loop now la r = Ok r' ->
  ru_messages r' = ru_messages r /\ forall m idx, (ctor_cnt (ru_slices r') m idx <= ctor_cnt (ru_slices r) m idx)%nat.
Proof.
  induction la as [|[id t] rest IH]; intros r r' E; cbn [ru_discard_loop] in E.
  - injection E as <-. split; [reflexivity|]. intros; lia.
  - destruct (sub_chk SITE_DURATION_SUB now t) as [d| |]; cbn [bind] in E; try discriminate.
    destruct (DISCARD_SLICE_SECS * 1000000000 <=? d); [|now apply IH].
    destruct (sm_find id (ru_slices r)) as [c|]; [|discriminate].
    destruct (sub_chk SITE_RECV_MEM_SUB (ru_mem r) (sc_num c * SLICE_SIZE)) as [mem| |]; cbn [bind] in E; try discriminate.
    destruct (IH _ _ E) as [A B]. cbn [ru_with ru_messages ru_slices] in *. split; [exact A|].
    intros m idx. specialize (B m idx). rewrite !ctor_cnt_cnt in *.
    pose proof (cnt_remove_le (ctor_holds m idx) id (ru_slices r)). lia.
Qed.

(* ================================================================== *)
(* 3. the accounting of one channel along the transitions of the receiver *)

Definition chan_acct (ru : list (N * recv_unrel)) (got : chan_log) (oa : list (list N)) (dlv : list nat) (ch : N) : Prop :=
  match sm_find ch ru with
  | None => log_get got ch = []
  | Some r => acct (log_get got ch) r oa dlv ch
  end.

Lemma acct_step got got' r r' oa dlv oa' dlv' ch :
  (forall m, len m <= SLICE_SIZE ->
     (occ got' m + occ (ru_messages r') m + small_copies oa dlv ch m <=
      occ got m + occ (ru_messages r) m + small_copies oa' dlv' ch m)%nat) ->
  (forall m idx, SLICE_SIZE < len m -> idx < num_slices_of m ->
     (occ got' m + held r' m idx + slice_copies oa dlv ch m idx <=
      occ got m + held r m idx + slice_copies oa' dlv' ch m idx)%nat) ->
  acct got r oa dlv ch -> acct got' r' oa' dlv' ch.
Proof.
  intros Hs Hl A m. destruct (A m) as [A1 A2]. split.
  - intros Hm. specialize (Hs m Hm). specialize (A1 Hm). lia.
  - intros Hm idx Hi. specialize (Hl m idx Hm Hi). specialize (A2 Hm idx Hi). unfold held in Hl. lia.
Qed.

Lemma acct_mono got r oa dlv ch oa' dlv' :
  acct got r oa dlv ch -> acct got r (oa ++ oa') (dlv ++ dlv') ch.
Proof.
  apply acct_step.
  - intros m _. unfold small_copies.
    pose proof (dlv_sum_oa_mono (pkt_small ch m) oa oa' dlv).
    pose proof (dlv_sum_dlv_mono (pkt_small ch m) (oa ++ oa') dlv dlv'). lia.
  - intros m idx _ _. unfold slice_copies.
    pose proof (dlv_sum_oa_mono (pkt_slice ch m idx) oa oa' dlv).
    pose proof (dlv_sum_dlv_mono (pkt_slice ch m idx) (oa ++ oa') dlv dlv'). lia.
Qed.

Lemma chan_acct_mono ru got oa dlv ch oa' dlv' :
  chan_acct ru got oa dlv ch -> chan_acct ru got (oa ++ oa') (dlv ++ dlv') ch.
Proof. unfold chan_acct. destruct (sm_find ch ru); [apply acct_mono|auto]. Qed.

Lemma chan_acct_dlv ru got oa dlv ch dlv' :
  chan_acct ru got oa dlv ch -> chan_acct ru got oa (dlv ++ dlv') ch.
Proof. intros H. apply (chan_acct_mono _ _ _ _ _ [] dlv') in H. now rewrite app_nil_r in H. Qed.

Lemma chan_acct_oa ru got oa dlv ch oa' :
  chan_acct ru got oa dlv ch -> chan_acct ru got (oa ++ oa') dlv ch.
Proof. intros H. apply (chan_acct_mono _ _ _ _ _ oa' []) in H. now rewrite app_nil_r in H. Qed.

(* the channel ch0 of the receiver moves from r to r'; the other channels stay *)
Lemma chan_acct_update ru got got' oa dlv oa' dlv' ch0 r r' ch :
  sm_find ch0 ru = Some r ->
  (ch <> ch0 -> chan_acct ru got oa dlv ch -> chan_acct ru got' oa' dlv' ch) ->
  (acct (log_get got ch0) r oa dlv ch0 -> acct (log_get got' ch0) r' oa' dlv' ch0) ->
  chan_acct ru got oa dlv ch -> chan_acct (sm_insert ch0 r' ru) got' oa' dlv' ch.
Proof.
  intros Hr Hother Hsame H. destruct (N.eq_dec ch ch0) as [->|Hne].
  - unfold chan_acct in *. rewrite sm_find_insert_same. rewrite Hr in H. auto.
  - specialize (Hother Hne H). unfold chan_acct in *. now rewrite sm_find_insert_other.
Qed.

Lemma pkt_small_here bytes sq ch ms m :
  from_bytes bytes = Ok (SmallUnreliable sq ch ms) -> pkt_small ch m bytes = occ ms m.
Proof. intros H. unfold pkt_small. now rewrite H, N.eqb_refl. Qed.

Lemma pkt_slice_here bytes sq ch sl m idx :
  from_bytes bytes = Ok (UnreliableSlice sq ch sl) -> pkt_slice ch m idx bytes = b2n (slice_is m idx sl).
Proof. intros H. unfold pkt_slice. rewrite H, N.eqb_refl. cbn [andb]. reflexivity. Qed.

(* T7: a packet of the sender is handed to the receiver *)
Lemma mult_deliver ordf sr su seq recs oa ob sent got dlv c bytes i p c' :
  conn_inv c -> is_disconnected c = false ->
  nth_error oa i = Some bytes -> from_bytes bytes = Ok p -> packet_wf p ->
  process_packet c bytes = Ok c' ->
  dinv ordf sr su seq recs (c_rr c) (c_ru c) (c_acks c) oa ob sent got dlv ->
  small_out_ok oa ->
  forall ch, chan_acct (c_ru c) got oa dlv ch -> chan_acct (c_ru c') got oa (dlv ++ [i]) ch.
Proof.
  intros Hi Hd Hn Hp Hwf E D Hsz ch H.
  destruct (process_packet_cases c bytes) as [(Hd' & _)|[(_ & e & He & _)|(_ & p0 & Hp0 & E0)]]; try congruence.
  rewrite Hp in Hp0. injection Hp0 as <-. rewrite E0 in E. clear E0.
  set (c1 := with_acks c (add_pending_ack (c_acks c) (packet_seq p))) in *.
  assert (Hi1 : conn_inv c1) by (apply inv_add_pending_ack; [exact Hi|now apply packet_wf_seq]).
  assert (Hin : In bytes oa) by (eapply nth_error_In; eauto).
  pose proof (chan_acct_dlv _ _ _ _ _ [i] H) as H0.
  destruct (is_ack p) eqn:Ha.
  - destruct p as [| | | |sq rs]; try discriminate.
    destruct (process_ack_spec c1 sq rs Hi1 (packet_wf_ack_ranges _ _ Hwf))
      as (c2 & l & E2 & _ & Hfr & _).
    rewrite E2 in E. injection E as <-.
    destruct Hfr as (_ & _ & _ & _ & F5 & F6 & _). rewrite F5. exact H0.
  - assert (HD : forall r, chan_acct (c_ru (disconnect_with c1 r)) got oa (dlv ++ [i]) ch).
    { intros r. destruct (disconnect_with_fields c1 r) as (_ & _ & _ & A4 & _). rewrite A4. exact H0. }
    destruct p as [sq ch0 ms|sq ch0 ms|sq ch0 sl|sq ch0 sl|sq rs]; [| | | |discriminate];
      cbn [process_parsed] in *; change (c_rr c1) with (c_rr c) in E; change (c_ru c1) with (c_ru c) in E.
    + destruct (sm_find ch0 (c_rr c)) as [r|] eqn:Hr; [|injection E as <-; apply HD].
      destruct (process_rel_msgs r ms) as [r'| |] eqn:Epm; [|injection E as <-; apply HD|discriminate].
      injection E as <-. exact H0.
    + destruct (sm_find ch0 (c_ru c)) as [r|] eqn:Hr; [|injection E as <-; apply HD].
      injection E as <-. cbn [with_ru c_ru]. change (c_ru c1) with (c_ru c).
      apply (chan_acct_update _ got got oa dlv oa (dlv ++ [i]) ch0 r _ ch Hr); [intros _ _; exact H0| |exact H].
      destruct (process_unrel_msgs_acct ms r) as [Hsl Hocc].
      pose proof (Hsz bytes _ Hin Hp) as Hsmall. cbn [small_sz] in Hsmall. rewrite Forall_forall in Hsmall.
      apply acct_step.
      * intros m _. unfold small_copies. rewrite (dlv_sum_snoc _ _ _ _ _ Hn), (pkt_small_here _ _ _ _ _ Hp).
        specialize (Hocc m). lia.
      * intros m idx Hm _. unfold held. rewrite Hsl. specialize (Hocc m).
        assert (Hz : occ ms m = 0%nat).
        { apply occ_zero. intros x Hx ->. specialize (Hsmall _ Hx). cbn beta in Hsmall. lia. }
        pose proof (dlv_sum_dlv_mono (pkt_slice ch0 m idx) oa dlv [i]). unfold slice_copies. lia.
    + destruct (sm_find ch0 (c_rr c)) as [r|] eqn:Hr; [|injection E as <-; apply HD].
      destruct (rr_process_slice r sl) as [r'| |] eqn:Eps; [|injection E as <-; apply HD|discriminate].
      injection E as <-. exact H0.
    + destruct (sm_find ch0 (c_ru c)) as [r|] eqn:Hr; [|injection E as <-; apply HD].
      destruct (ru_process_slice r sl (c_now c1)) as [r'| |] eqn:Eps; [|injection E as <-; apply HD|discriminate].
      injection E as <-. cbn [with_ru c_ru]. change (c_ru c1) with (c_ru c).
      apply (chan_acct_update _ got got oa dlv oa (dlv ++ [i]) ch0 r _ ch Hr); [intros _ _; exact H0| |exact H].
      destruct (ru_process_slice_acct oa sent ch0 r (c_now c1) bytes sq sl r') as [Hsm Hhd]; auto.
      * apply (inv_find_ru c1 ch0 r Hi1 Hr).
      * exact (di_urcv _ _ _ _ _ _ _ _ _ _ _ _ _ D ch0 r Hr).
      * exact (di_uout _ _ _ _ _ _ _ _ _ _ _ _ _ D).
      * apply acct_step.
        -- intros m Hm. rewrite (Hsm m Hm).
           pose proof (dlv_sum_dlv_mono (pkt_small ch0 m) oa dlv [i]). unfold small_copies. lia.
        -- intros m idx _ Hidx. specialize (Hhd m idx Hidx). unfold slice_copies.
           rewrite (dlv_sum_snoc _ _ _ _ _ Hn), (pkt_slice_here _ _ _ _ _ _ Hp). lia.
Qed.

(* ================================================================== *)
(* 4. the sender: a SmallUnreliable packet never carries a message that should have been sliced *)

Lemma gather_small_sz ord c avail c1 av pk :
  gather_rel ord c avail c1 av pk -> conn_inv c -> Forall small_sz pk.
Proof.
  induction 1 as [c avail|ch t c avail s s' pk seq' avail1 c2 avail2 pk2 Hs Eg Hrel IH
                         |ch t c avail s s' pk seq' avail1 c2 avail2 pk2 Hs Eg Hrel IH]; intros Hi.
  - constructor.
  - destruct (gather_step_rel c ch s avail s' pk seq' avail1 Hi Hs Eg) as (Hi' & _).
    destruct (inv_find_sr _ _ _ Hi Hs) as [Hsi Hch].
    destruct (SendRelP.sr_get_packets_facts _ _ _ _ _ _ _ _ Hsi Eg) as (new & T).
    apply Forall_app. split; [|exact (IH Hi')].
    eapply Forall_impl; [|exact (SendRelP.tf_pkts _ _ _ _ _ _ _ _ T)].
    intros p Hp. apply pkt_ok_is_rel in Hp. destruct p; try discriminate; exact I.
  - destruct (gather_step_unrel c ch s avail s' pk seq' avail1 Hi Hs Eg) as (Hi' & _).
    destruct (inv_find_su _ _ _ Hi Hs) as [Hsi Hch].
    apply Forall_app. split; [|exact (IH Hi')].
    eapply Forall_impl; [|exact (SendUnrelP.su_get_packets_sizes _ _ _ _ _ _ _ Hsi Eg)].
    intros p Hp. destruct p; cbn [SendUnrelP.unrel_size_ok small_sz] in *; try exact I. tauto.
Qed.

Lemma small_out_ok_nil : small_out_ok [].
Proof. intros b p []. Qed.

Lemma small_out_ok_app oa more : small_out_ok oa -> small_out_ok more -> small_out_ok (oa ++ more).
Proof. intros H1 H2 b p Hin Hp. apply in_app_or in Hin. destruct Hin; eauto. Qed.

Lemma flush_small_sz c c' bytes :
  conn_inv c -> chans_u8 c -> is_disconnected c = false -> get_packets_to_send c = Ok (c', bytes) ->
  small_out_ok bytes.
Proof.
  intros Hi Hu8 Hd E b p' Hin Hp'.
  destruct (flush_shape c c' bytes Hi E)
    as [(Hd' & _)|(_ & c1 & av & pk & Hrel & -> & HF2 & Hfits & Hv & Hack)]; [congruence|].
  destruct (gather_facts _ _ _ _ _ _ Hrel Hi) as (Hi1 & Hseq & Hseqs & _ & Hfr & _ & Hpk).
  destruct Hfr as (Hnow & Hsent & Hacks & _ & Hrr & Hru & _ & Hst).
  destruct (gather_emits _ _ _ _ _ _ Hrel Hi) as (Hstat & Hem & f & Hsu).
  pose proof (gather_small_sz _ _ _ _ _ _ Hrel Hi) as Hsz.
  destruct (Forall2_in_r _ _ _ _ HF2 Hin) as (p & Hp & Hb).
  assert (Hall : emit_ok c p /\ unrel_shape (c_su c) p /\ small_sz p).
  { unfold flush_pkts in Hp. apply in_app_or in Hp. destruct Hp as [Hp|Hp].
    - rewrite Forall_forall in Hem, Hpk, Hsz. destruct (Hpk p Hp) as (_ & Hna & _).
      split; [|split; [eapply su_step_shape; eauto|auto]].
      destruct p; try discriminate; cbn [emit_ok]; apply Hem; exact Hp.
    - apply Forall_app in Hv. destruct Hv as [_ Hv]. apply Forall_app in Hack. destruct Hack as [_ Hack].
      rewrite Hacks in *. destruct (c_acks c) as [|ab t] eqn:Ea; cbn [ack_part] in *; [destruct Hp|].
      destruct Hp as [<-|[]].
      inversion Hv as [|? ? Hv1 _]; subst. inversion Hack as [|? ? Ha1 _]; subst.
      cbn [ConnEncP.varints_ok ConnEncP.ack_ok emit_ok packet_wf unrel_shape small_sz] in *. rewrite Ea. tauto. }
  destruct Hall as (Hemit & Hshape & Hsmall).
  rewrite Forall_forall in Hfits, Hv.
  destruct (emit_decode c p b p' Hi Hu8 Hb (Hfits p Hp) (Hv p Hp) Hemit Hshape Hp') as [-> _]. exact Hsmall.
Qed.

Lemma api_small_sz c op c' out :
  conn_inv c -> chans_u8 c -> is_process op = false -> cstep c op = Ok (c', out) -> small_out_ok (outs_of out).
Proof.
  intros Hi Hu8 Hnp E. destruct op as [ch m|ch|dt|b| | | | |]; try discriminate; cbn [cstep] in E.
  - destruct (send_message c ch m) as [c1| |]; cbn [bind] in E; try discriminate. injection E as <- <-. apply small_out_ok_nil.
  - destruct (receive_message c ch) as [[c1 mo]| |]; cbn [bind] in E; try discriminate. injection E as <- <-. apply small_out_ok_nil.
  - destruct (update c dt) as [c1| |]; cbn [bind] in E; try discriminate. injection E as <- <-. apply small_out_ok_nil.
  - destruct (get_packets_to_send c) as [[c1 p]| |] eqn:E1; cbn [bind] in E; try discriminate.
    injection E as <- <-. cbn [outs_of]. destruct (is_disconnected c) eqn:Hd.
    + rewrite (DisconnectP.get_packets_to_send_disconnected_noop c Hd) in E1. injection E1 as <- <-. apply small_out_ok_nil.
    + eapply flush_small_sz; eauto.
  - injection E as <- <-. apply small_out_ok_nil.
  - injection E as <- <-. apply small_out_ok_nil.
  - injection E as <- <-. apply small_out_ok_nil.
  - injection E as <- <-. apply small_out_ok_nil.
Qed.

(* ================================================================== *)
(* 5. the receiver's own calls *)

Lemma chan_acct_got ru got got' oa dlv ch :
  log_get got' ch = log_get got ch -> chan_acct ru got oa dlv ch -> chan_acct ru got' oa dlv ch.
Proof. unfold chan_acct. intros ->. auto. Qed.

Lemma chan_acct_ru ru ru' got oa dlv ch :
  sm_find ch ru' = sm_find ch ru -> chan_acct ru got oa dlv ch -> chan_acct ru' got oa dlv ch.
Proof. unfold chan_acct. intros ->. auto. Qed.

Lemma discard_all_find_none now : forall l l', discard_all now l = Ok l' ->
  forall ch, sm_find ch l' = None -> sm_find ch l = None.
Proof.
  induction l as [|[c r] t IH]; intros l' E ch Hf; cbn [discard_all] in E.
  - reflexivity.
  - destruct (ru_discard_old r now) as [r1| |] eqn:Er; try discriminate.
    destruct (discard_all now t) as [t'| |] eqn:Et; cbn [bind] in E; try discriminate.
    injection E as <-. cbn [sm_find] in *. destruct (ch =? c); [discriminate|eauto].
Qed.

Lemma mult_receiver_api c op c' out got oa dlv :
  conn_inv c -> chans_u8 c -> is_process op = false -> cstep c op = Ok (c', out) ->
  forall ch, sm_find ch (c_rr c) = None ->
    chan_acct (c_ru c) got oa dlv ch -> chan_acct (c_ru c') (got_upd op out got) oa dlv ch.
Proof.
  intros Hi Hu8 Hnp E ch Hrr H.
  assert (Hdw : forall r, chan_acct (c_ru (disconnect_with c r)) got oa dlv ch).
  { intros r. destruct (disconnect_with_fields c r) as (_ & _ & _ & A4 & _). now rewrite A4. }
  destruct op as [ch0 m|ch0|dt|b| | | | |]; try discriminate; cbn [cstep] in E.
  - (* CSend *)
    destruct (send_message c ch0 m) as [c1| |] eqn:E1; cbn [bind] in E; try discriminate.
    injection E as <- <-. cbn [got_upd].
    destruct (channel_frame_send c ch0 m c1 E1) as (_ & _ & A2 & _). now rewrite A2.
  - (* CRecv *)
    destruct (receive_message c ch0) as [[c1 mo]| |] eqn:E1; cbn [bind] in E; try discriminate.
    injection E as <- <-. cbn [got_upd]. unfold receive_message in E1.
    change (match mo with Some m => log_add got ch0 m | None => got end) with (got_add got ch0 mo).
    destruct (is_disconnected c).
    { injection E1 as <- <-. exact H. }
    destruct (sm_find ch0 (c_rr c)) as [r|] eqn:Hr.
    + destruct (rr_receive r) as [[r' mo']| |] eqn:Er; try discriminate.
      injection E1 as <- <-. cbn [with_rr c_ru].
      apply (chan_acct_got _ got); [|exact H]. apply got_add_other. congruence.
    + destruct (sm_find ch0 (c_ru c)) as [r|] eqn:Hu; try discriminate.
      destruct (ru_receive r) as [[r' mo']| |] eqn:Er; try discriminate.
      injection E1 as <- <-. cbn [with_ru c_ru].
      apply (chan_acct_update _ got _ oa dlv oa dlv ch0 r r' ch Hu); [| |exact H].
      * intros Hne. apply chan_acct_got. now apply got_add_other.
      * rewrite got_add_same. unfold ru_receive in Er. destruct (ru_messages r) as [|m0 t] eqn:Em.
        -- injection Er as <- <-. rewrite app_nil_r. apply acct_step.
           ++ intros m _. lia.
           ++ intros m idx _ _. lia.
        -- destruct (sub_chk SITE_RECV_MEM_SUB (ru_mem r) (len m0)) as [mem| |]; cbn [bind] in Er; try discriminate.
           injection Er as <- <-. apply acct_step.
           ++ intros m _. cbn [ru_with ru_messages]. rewrite Em, occ_app, occ_one, occ_cons. lia.
           ++ intros m idx _ _. unfold held. cbn [ru_with ru_messages ru_slices].
              rewrite Em, occ_app, occ_one, occ_cons. lia.
  - (* CUpdate *)
    destruct (update c dt) as [c1| |] eqn:E1; cbn [bind] in E; try discriminate.
    injection E as <- <-. cbn [got_upd].
    destruct (update_unfold c dt c1 E1) as (ru1 & sent1 & Hru & _ & ->).
    cbn [with_sent with_ru with_now c_ru]. unfold chan_acct in *.
    destruct (sm_find ch ru1) as [r'|] eqn:Hr'.
    + destruct (discard_all_find _ _ _ Hru ch r' Hr') as (r & Hr & Ed). rewrite Hr in H.
      unfold ru_discard_old in Ed. destruct (discard_loop_acct _ _ _ _ Ed) as [Hm Hc].
      revert H. apply acct_step.
      * intros m _. rewrite Hm. lia.
      * intros m idx _ _. unfold held. rewrite Hm. specialize (Hc m idx). lia.
    + rewrite (discard_all_find_none _ _ _ Hru ch Hr') in H. exact H.
  - (* CFlush *)
    destruct (get_packets_to_send c) as [[c1 p]| |] eqn:E1; cbn [bind] in E; try discriminate.
    injection E as <- <-. cbn [got_upd].
    destruct (is_disconnected c) eqn:Hd.
    + rewrite (DisconnectP.get_packets_to_send_disconnected_noop c Hd) in E1. injection E1 as <- <-. exact H.
    + destruct (flush_pack c c1 p Hi Hu8 Hd E1)
        as (pk & f & _ & _ & _ & _ & _ & _ & _ & _ & Hru & _). now rewrite Hru.
  - injection E as <- <-. cbn [got_upd]. unfold set_connected. destruct (is_disconnected c); exact H.
  - injection E as <- <-. cbn [got_upd]. unfold set_connecting. destruct (is_disconnected c); exact H.
  - injection E as <- <-. cbn [got_upd]. apply Hdw.
  - injection E as <- <-. cbn [got_upd]. apply Hdw.
Qed.

(* ================================================================== *)
(* 6. one system step keeps the accounting invariant *)

Lemma mult_inv_unfold s :
  mult_inv s <->
  small_out_ok (out_a s) /\
  forall ch, sm_find ch (c_rr (rb s)) = None -> chan_acct (c_ru (rb s)) (got_b s) (out_a s) (dlv_b s) ch.
Proof. reflexivity. Qed.

Lemma same_channels_rr_none c c' ch : same_channels c c' -> sm_find ch (c_rr c') = None -> sm_find ch (c_rr c) = None.
Proof.
  intros H Hf. destruct (H ch) as (_ & _ & A3 & _). apply sm_find_none_mem. rewrite <- A3. now apply sm_find_none_mem.
Qed.

Lemma mult_inv_step cfg_ab cfg_ba s o s' :
  sys_inv cfg_ab cfg_ba s -> sys_step s o = Ok s' -> mult_inv s -> mult_inv s'.
Proof.
  intros ([Ha Hb Hua Hub Hwa Hwb] & Dab & _) E M. apply mult_inv_unfold in M. destruct M as [Hsz Hacc0].
  assert (Hacc : forall ch, sm_find ch (c_rr (rb s)) = None ->
                   chan_acct (c_ru (rb s)) (got_b s) (out_a s) (dlv_b s) ch) by exact Hacc0.
  clear Hacc0.
  apply mult_inv_unfold. unfold dir_inv in Dab. destruct o as [x op|x i]; cbn [sys_step] in E.
  - destruct (is_process op) eqn:Hnp; [injection E as <-; auto|].
    destruct x; cbn [conn_of] in E.
    + destruct (cstep (ra s) op) as [[c' out]| |] eqn:Ec; cbn [bind] in E; try discriminate.
      injection E as <-. cbn [upd_side ra rb out_a got_b dlv_b].
      change (match out with OPkts p => p | _ => [] end) with (outs_of out). split.
      * apply small_out_ok_app; [exact Hsz|]. exact (api_small_sz _ _ _ _ Ha Hua Hnp Ec).
      * intros ch Hrr. apply chan_acct_oa. auto.
    + destruct (cstep (rb s) op) as [[c' out]| |] eqn:Ec; cbn [bind] in E; try discriminate.
      injection E as <-. cbn [upd_side ra rb out_a got_b dlv_b]. split; [exact Hsz|].
      destruct (cstep_api_safe _ _ _ _ Hb Hnp Ec) as [_ Hsc].
      intros ch Hrr. pose proof (same_channels_rr_none _ _ _ Hsc Hrr) as Hrr0.
      exact (mult_receiver_api _ _ _ _ (got_b s) (out_a s) (dlv_b s) Hb Hub Hnp Ec ch Hrr0 (Hacc ch Hrr0)).
  - destruct x.
    + destruct (nth_error (out_b s) i) as [bytes|] eqn:En; [|injection E as <-; auto].
      destruct (process_packet (ra s) bytes) as [c'| |] eqn:Ep; cbn [bind] in E; try discriminate.
      injection E as <-. cbn [ra rb out_a got_b dlv_b]. auto.
    + destruct (nth_error (out_a s) i) as [bytes|] eqn:En; [|injection E as <-; auto].
      destruct (process_packet (rb s) bytes) as [c'| |] eqn:Ep; cbn [bind] in E; try discriminate.
      injection E as <-. cbn [ra rb out_a got_b dlv_b]. split; [exact Hsz|].
      assert (Hin : In bytes (out_a s)) by (eapply nth_error_In; eauto).
      destruct (process_packet_wf_safe (rb s) bytes Hb) as (c2 & E2 & _ & Hsc).
      { intros p Hp. eapply Hwa; eauto. }
      rewrite Ep in E2. injection E2 as <-.
      intros ch Hrr. pose proof (same_channels_rr_none _ _ _ Hsc Hrr) as Hrr0. specialize (Hacc ch Hrr0).
      destruct (process_packet_cases (rb s) bytes) as [(Hd & E0)|[(Hd & e & _ & E0)|(Hd & p & Hp & E0)]]; rewrite Hd.
      * rewrite E0 in Ep. injection Ep as <-. exact Hacc.
      * rewrite E0 in Ep. injection Ep as <-.
        destruct (disconnect_with_fields (rb s) (RPacketDeserialization e)) as (_ & _ & _ & A4 & _).
        rewrite A4. now apply chan_acct_dlv.
      * pose proof (Hwa bytes p Hin Hp) as Hwf.
        exact (mult_deliver _ _ _ _ _ _ _ _ _ _ (rb s) bytes i p c' Hb Hd En Hp Hwf Ep Dab Hsz ch Hacc).
Qed.

Lemma mult_inv_flip_step cfg_ab cfg_ba s o s' :
  sys_inv cfg_ab cfg_ba s -> sys_step s o = Ok s' -> mult_inv (flip s) -> mult_inv (flip s').
Proof.
  intros (Hbase & Dab & Dba) E M.
  apply (mult_inv_step cfg_ba cfg_ab (flip s) (flip_op o) (flip s')); [|now apply sys_step_flip_ok|exact M].
  split; [now apply base_inv_flip|]. split; [exact Dba|]. now rewrite flip_flip.
Qed.

Lemma mult_inv_run cfg_ab cfg_ba ops : forall s s',
  sys_inv cfg_ab cfg_ba s -> sys_run s ops = Ok s' ->
  mult_inv s /\ mult_inv (flip s) -> mult_inv s' /\ mult_inv (flip s').
Proof.
  induction ops as [|o t IH]; intros s s' Hs E [M1 M2]; cbn [sys_run] in E.
  - injection E as <-. auto.
  - destruct (sys_step s o) as [s1| |] eqn:E1; cbn [bind] in E; try discriminate.
    apply (IH s1 s'); [eapply sys_inv_step; eauto|exact E|]. split.
    + eapply mult_inv_step; eauto.
    + eapply mult_inv_flip_step; eauto.
Qed.

(* ================================================================== *)
(* 7. the initial state, and the invariant after every run *)

Lemma mult_inv_fresh s :
  out_a s = [] -> got_b s = [] -> dlv_b s = [] -> Forall ru_fresh (c_ru (rb s)) -> mult_inv s.
Proof.
  intros Ho Hg Hd Hf. apply mult_inv_unfold. rewrite Ho, Hg, Hd. split; [apply small_out_ok_nil|].
  intros ch _. unfold chan_acct. destruct (sm_find ch (c_ru (rb s))) as [r|] eqn:Hr; [|reflexivity].
  destruct (Forall_sm_find _ _ _ _ Hf Hr) as [A B]. cbn [snd] in A, B.
  intros m. rewrite A, B. cbn [log_get]. split; intros; cbn; lia.
Qed.

Lemma sys_init_mult ba bb cfg_ab cfg_ba s0 :
  cfg_u8 cfg_ab -> cfg_u8 cfg_ba -> sys_init ba bb cfg_ab cfg_ba = Ok s0 -> mult_inv s0 /\ mult_inv (flip s0).
Proof.
  intros Hab Hba E. unfold sys_init in E.
  destruct (conn_new ba cfg_ab cfg_ba) as [a| |] eqn:Ea; cbn [bind] in E; try discriminate.
  destruct (conn_new bb cfg_ba cfg_ab) as [b| |] eqn:Eb; cbn [bind] in E; try discriminate.
  injection E as <-.
  destruct (conn_new_fresh _ _ _ _ Ea Hab) as (_ & _ & _ & _ & A3 & _).
  destruct (conn_new_fresh _ _ _ _ Eb Hba) as (_ & _ & _ & _ & B3 & _).
  split; apply mult_inv_fresh; cbn [flip ra rb out_a got_b dlv_b]; auto.
Qed.

Section Run.
  Variables (ba bb : N) (cfg_ab cfg_ba : list chan_config) (s0 s : rsys) (ops : list sysop).
  Hypothesis Hu8ab : cfg_u8 cfg_ab.
  Hypothesis Hu8ba : cfg_u8 cfg_ba.
  Hypothesis Hinit : sys_init ba bb cfg_ab cfg_ba = Ok s0.
  Hypothesis Hrun : sys_run s0 ops = Ok s.

  Lemma run_mult_inv : mult_inv s /\ mult_inv (flip s).
  Proof.
    apply (mult_inv_run cfg_ab cfg_ba ops s0 s); [|exact Hrun|].
    - exact (sys_init_inv ba bb cfg_ab cfg_ba s0 Hu8ab Hu8ba Hinit).
    - exact (sys_init_mult ba bb cfg_ab cfg_ba s0 Hu8ab Hu8ba Hinit).
  Qed.

  (* the accounting of a channel that has no reliable namesake, direction A -> B *)
  Lemma run_chan_acct ch : ordf_of cfg_ab ch = None ->
    chan_acct (c_ru (rb s)) (got_b s) (out_a s) (dlv_b s) ch.
  Proof.
    intros Hord. destruct run_mult_inv as [M _]. apply mult_inv_unfold in M. destruct M as [_ M]. apply M.
    destruct (run_inv ba bb cfg_ab cfg_ba s0 s ops Hu8ab Hu8ba Hinit Hrun) as (_ & D & _).
    pose proof (di_receiver _ _ _ _ _ _ _ _ _ _ _ _ _ D ch) as R.
    destruct (sm_find ch (c_rr (rb s))) as [r|]; [|reflexivity].
    destruct R as (o & Ho & _). congruence.
  Qed.
End Run.

(* ---------- minimum of a list ---------- *)
Lemma fold_min_ge X t : forall a, (X <= a)%nat -> (forall x, In x t -> (X <= x)%nat) -> (X <= fold_left Nat.min t a)%nat.
Proof.
  induction t as [|y t IH]; intros a Ha Ht; cbn [fold_left]; [exact Ha|].
  apply IH; [|intros x Hx; apply Ht; now right].
  specialize (Ht y (or_introl eq_refl)). lia.
Qed.

Lemma fold_min_le t : forall a, (fold_left Nat.min t a <= a)%nat /\ forall x, In x t -> (fold_left Nat.min t a <= x)%nat.
Proof.
  induction t as [|y t IH]; intros a; cbn [fold_left]; [split; [lia|intros x []]|].
  destruct (IH (Nat.min a y)) as [A B]. split; [lia|].
  intros x [<-|Hx]; [lia|auto].
Qed.

Lemma min_list_ge X l : l <> [] -> (forall x, In x l -> (X <= x)%nat) -> (X <= min_list l)%nat.
Proof.
  destruct l as [|a t]; [congruence|]. intros _ H. cbn [min_list].
  apply fold_min_ge; [apply H; now left|intros x Hx; apply H; now right].
Qed.

Lemma min_list_le l x : In x l -> (min_list l <= x)%nat.
Proof.
  destruct l as [|a t]; [intros []|]. cbn [min_list]. destruct (fold_min_le t a) as [A B].
  intros [<-|Hx]; auto.
Qed.

Lemma acct_bound got r oa dlv ch m : acct got r oa dlv ch -> (occ got m <= copies_bound oa dlv ch m)%nat.
Proof.
  intros A. destruct (A m) as [A1 A2]. unfold copies_bound.
  destruct (N.leb_spec (len m) SLICE_SIZE) as [Hs|Hl].
  - specialize (A1 Hs). lia.
  - destruct (SliceP.num_bounds m Hl) as (_ & _ & B3).
    apply min_list_ge.
    + intros Hnil. apply (f_equal (@length _)) in Hnil. rewrite map_length, iota_length in Hnil. cbn [length] in Hnil. lia.
    + intros x Hx. apply in_map_iff in Hx. destruct Hx as (idx & <- & Hidx). apply in_iota in Hidx.
      specialize (A2 Hl idx Hidx). lia.
Qed.

Lemma chan_acct_bound ru got oa dlv ch m :
  chan_acct ru got oa dlv ch -> (occ (log_get got ch) m <= copies_bound oa dlv ch m)%nat.
Proof.
  unfold chan_acct. destruct (sm_find ch ru) as [r|]; [apply acct_bound|].
  intros ->. cbn. lia.
Qed.

(* ================================================================== *)
(* 8. the theorems *)

(* (M1) On an Unreliable channel a message is obtained at most as many times as the network
   delivered each of the packets carrying it.  [ordf_of cfg_ab ch = None] says that no reliable
   channel is configured with the same id: see multiplicity_needs_distinct_ids_refuted below. *)
Theorem sys_unreliable_multiplicity : forall ba bb cfg_ab cfg_ba s0 ops s,
  cfg_u8 cfg_ab -> cfg_u8 cfg_ba ->
  sys_init ba bb cfg_ab cfg_ba = Ok s0 -> sys_run s0 ops = Ok s -> Forall (sysop_ok cfg_ab cfg_ba) ops ->
  forall ch, chan_kind cfg_ab ch = Some TUnreliable -> ordf_of cfg_ab ch = None ->
  forall m, (count_occ msg_eq_dec (log_get (got_b s) ch) m <= copies_bound (out_a s) (dlv_b s) ch m)%nat.
Proof.
  intros ba bb cfg_ab cfg_ba s0 ops s Hab Hba Hinit Hrun _ ch _ Hord m.
  apply (chan_acct_bound (c_ru (rb s))).
  exact (run_chan_acct ba bb cfg_ab cfg_ba s0 s ops Hab Hba Hinit Hrun ch Hord).
Qed.

(* the direction B -> A, by symmetry *)
Theorem sys_unreliable_multiplicity_ba : forall ba bb cfg_ab cfg_ba s0 ops s,
  cfg_u8 cfg_ab -> cfg_u8 cfg_ba ->
  sys_init ba bb cfg_ab cfg_ba = Ok s0 -> sys_run s0 ops = Ok s -> Forall (sysop_ok cfg_ab cfg_ba) ops ->
  forall ch, chan_kind cfg_ba ch = Some TUnreliable -> ordf_of cfg_ba ch = None ->
  forall m, (count_occ msg_eq_dec (log_get (got_a s) ch) m <= copies_bound (out_b s) (dlv_a s) ch m)%nat.
Proof.
  intros ba bb cfg_ab cfg_ba s0 ops s Hab Hba Hinit Hrun _ ch _ Hord m.
  apply (chan_acct_bound (c_ru (ra s))).
  exact (run_chan_acct bb ba cfg_ba cfg_ab (flip s0) (flip s) (map flip_op ops) Hba Hab
           (sys_init_flip _ _ _ _ _ Hinit) (sys_run_flip _ _ _ Hrun) ch Hord).
Qed.

(* ---------- (M3) a lost slice loses the whole message ---------- *)
Theorem lost_slice_loses_message : forall ba bb cfg_ab cfg_ba s0 ops s,
  cfg_u8 cfg_ab -> cfg_u8 cfg_ba ->
  sys_init ba bb cfg_ab cfg_ba = Ok s0 -> sys_run s0 ops = Ok s -> Forall (sysop_ok cfg_ab cfg_ba) ops ->
  forall ch, chan_kind cfg_ab ch = Some TUnreliable -> ordf_of cfg_ab ch = None ->
  forall m idx, SLICE_SIZE < len m -> idx < num_slices_of m ->
    slice_copies (out_a s) (dlv_b s) ch m idx = 0%nat ->
    ~ In m (log_get (got_b s) ch).
Proof.
  intros ba bb cfg_ab cfg_ba s0 ops s Hab Hba Hinit Hrun Hops ch Hk Hord m idx Hl Hidx Hz Hin.
  pose proof (sys_unreliable_multiplicity ba bb cfg_ab cfg_ba s0 ops s Hab Hba Hinit Hrun Hops ch Hk Hord m) as B.
  unfold copies_bound in B. destruct (N.leb_spec (len m) SLICE_SIZE); [lia|].
  assert (Hmin : (min_list (map (slice_copies (out_a s) (dlv_b s) ch m) (iota (num_slices_of m))) <= 0)%nat).
  { rewrite <- Hz. apply min_list_le. apply in_map. now apply in_iota. }
  apply (count_occ_In msg_eq_dec) in Hin. lia.
Qed.

(* the same for a message that travels whole: if no delivered packet carries it, it is not obtained *)
Theorem lost_packet_loses_message : forall ba bb cfg_ab cfg_ba s0 ops s,
  cfg_u8 cfg_ab -> cfg_u8 cfg_ba ->
  sys_init ba bb cfg_ab cfg_ba = Ok s0 -> sys_run s0 ops = Ok s -> Forall (sysop_ok cfg_ab cfg_ba) ops ->
  forall ch, chan_kind cfg_ab ch = Some TUnreliable -> ordf_of cfg_ab ch = None ->
  forall m, len m <= SLICE_SIZE -> small_copies (out_a s) (dlv_b s) ch m = 0%nat ->
    ~ In m (log_get (got_b s) ch).
Proof.
  intros ba bb cfg_ab cfg_ba s0 ops s Hab Hba Hinit Hrun Hops ch Hk Hord m Hl Hz Hin.
  pose proof (sys_unreliable_multiplicity ba bb cfg_ab cfg_ba s0 ops s Hab Hba Hinit Hrun Hops ch Hk Hord m) as B.
  unfold copies_bound in B. destruct (N.leb_spec (len m) SLICE_SIZE); [|lia].
  apply (count_occ_In msg_eq_dec) in Hin. lia.
Qed.

(* ---------- (M2) a network that does not duplicate ---------- *)
Lemma list_sum_nodup_le (g : nat -> nat) : forall l l', NoDup l ->
  (forall a, In a l -> In a l' \/ g a = 0%nat) -> (list_sum (map g l) <= list_sum (map g l'))%nat.
Proof.
  induction l as [|a t IH]; intros l' Hnd H; cbn [map]; [cbn; lia|].
  inversion Hnd as [|? ? Hna Hnd']; subst. rewrite list_sum_cons.
  destruct (H a (or_introl eq_refl)) as [Hin|Hz].
  - apply in_split in Hin. destruct Hin as (l1 & l2 & ->).
    rewrite map_app, list_sum_app. cbn [map]. rewrite list_sum_cons.
    assert (IH' : (list_sum (map g t) <= list_sum (map g (l1 ++ l2)))%nat).
    { apply IH; [exact Hnd'|]. intros x Hx. destruct (H x (or_intror Hx)) as [Hx'|Hx']; [|now right].
      left. apply in_app_or in Hx'. apply in_or_app. destruct Hx' as [Hx'|[->|Hx']]; auto. contradiction. }
    rewrite map_app, list_sum_app in IH'. lia.
  - rewrite Hz. apply IH; [exact Hnd'|]. intros x Hx. apply H. now right.
Qed.

Lemma list_sum_nth (f : list N -> nat) : forall oa,
  list_sum (map (fun i => match nth_error oa i with Some b => f b | None => 0%nat end) (seq 0 (length oa))) =
  list_sum (map f oa).
Proof.
  induction oa as [|b t IH]; [reflexivity|].
  cbn [length seq map nth_error]. rewrite !list_sum_cons, <- seq_shift, map_map. cbn [nth_error]. now rewrite IH.
Qed.

Lemma dlv_sum_nodup f oa dlv : NoDup dlv -> (dlv_sum f oa dlv <= list_sum (map f oa))%nat.
Proof.
  intros Hnd. rewrite <- list_sum_nth. unfold dlv_sum. apply list_sum_nodup_le; [exact Hnd|].
  intros a _. destruct (nth_error oa a) as [b|] eqn:E; [left|now right].
  apply in_seq. split; [lia|]. cbn [Nat.add]. apply nth_error_Some. congruence.
Qed.

(* if the network handed no packet of A to B twice and A's output carries m only once, then m is
   obtained at most once *)
Theorem non_duplicating_network_at_most_once : forall ba bb cfg_ab cfg_ba s0 ops s,
  cfg_u8 cfg_ab -> cfg_u8 cfg_ba ->
  sys_init ba bb cfg_ab cfg_ba = Ok s0 -> sys_run s0 ops = Ok s -> Forall (sysop_ok cfg_ab cfg_ba) ops ->
  forall ch, chan_kind cfg_ab ch = Some TUnreliable -> ordf_of cfg_ab ch = None ->
  NoDup (dlv_b s) ->
  forall m, carried_once (out_a s) ch m ->
    (count_occ msg_eq_dec (log_get (got_b s) ch) m <= 1)%nat.
Proof.
  intros ba bb cfg_ab cfg_ba s0 ops s Hab Hba Hinit Hrun Hops ch Hk Hord Hnd m Hc.
  pose proof (sys_unreliable_multiplicity ba bb cfg_ab cfg_ba s0 ops s Hab Hba Hinit Hrun Hops ch Hk Hord m) as B.
  unfold copies_bound in B. unfold carried_once in Hc. destruct (len m <=? SLICE_SIZE).
  - pose proof (dlv_sum_nodup (pkt_small ch m) (out_a s) (dlv_b s) Hnd).
    unfold small_copies in B. unfold out_small_total in Hc. lia.
  - destruct Hc as (idx & Hidx & Hc).
    assert (Hmin : (min_list (map (slice_copies (out_a s) (dlv_b s) ch m) (iota (num_slices_of m))) <=
                    slice_copies (out_a s) (dlv_b s) ch m idx)%nat).
    { apply min_list_le. apply in_map. now apply in_iota. }
    pose proof (dlv_sum_nodup (pkt_slice ch m idx) (out_a s) (dlv_b s) Hnd) as Hnd'.
    change (dlv_sum (pkt_slice ch m idx) (out_a s) (dlv_b s)) with (slice_copies (out_a s) (dlv_b s) ch m idx) in Hnd'. unfold out_slice_total in Hc. lia.
Qed.

(* in general: on a non-duplicating network, at most as many times as A's output carries it *)
Theorem non_duplicating_network_bound : forall ba bb cfg_ab cfg_ba s0 ops s,
  cfg_u8 cfg_ab -> cfg_u8 cfg_ba ->
  sys_init ba bb cfg_ab cfg_ba = Ok s0 -> sys_run s0 ops = Ok s -> Forall (sysop_ok cfg_ab cfg_ba) ops ->
  forall ch, chan_kind cfg_ab ch = Some TUnreliable -> ordf_of cfg_ab ch = None ->
  NoDup (dlv_b s) ->
  forall m,
    (len m <= SLICE_SIZE ->
       (count_occ msg_eq_dec (log_get (got_b s) ch) m <= out_small_total (out_a s) ch m)%nat) /\
    (SLICE_SIZE < len m -> forall idx, idx < num_slices_of m ->
       (count_occ msg_eq_dec (log_get (got_b s) ch) m <= out_slice_total (out_a s) ch m idx)%nat).
Proof.
  intros ba bb cfg_ab cfg_ba s0 ops s Hab Hba Hinit Hrun Hops ch Hk Hord Hnd m.
  pose proof (sys_unreliable_multiplicity ba bb cfg_ab cfg_ba s0 ops s Hab Hba Hinit Hrun Hops ch Hk Hord m) as B.
  unfold copies_bound in B. split.
  - intros Hs. destruct (N.leb_spec (len m) SLICE_SIZE); [|lia].
    pose proof (dlv_sum_nodup (pkt_small ch m) (out_a s) (dlv_b s) Hnd).
    unfold small_copies in B. unfold out_small_total. lia.
  - intros Hl idx Hidx. destruct (N.leb_spec (len m) SLICE_SIZE); [lia|].
    assert (Hmin : (min_list (map (slice_copies (out_a s) (dlv_b s) ch m) (iota (num_slices_of m))) <=
                    slice_copies (out_a s) (dlv_b s) ch m idx)%nat).
    { apply min_list_le. apply in_map. now apply in_iota. }
    pose proof (dlv_sum_nodup (pkt_slice ch m idx) (out_a s) (dlv_b s) Hnd) as Hnd'.
    change (dlv_sum (pkt_slice ch m idx) (out_a s) (dlv_b s)) with (slice_copies (out_a s) (dlv_b s) ch m idx) in Hnd'. unfold out_slice_total. lia.
Qed.

(* ================================================================== *)
(* 9. non-vacuity: one unreliable channel, a small and a 2500-byte message (three slices).
   A's flush emits slice 0, slice 1, slice 2 (indices 0, 1, 2 of out_a) and then the
   SmallUnreliable packet with the small message (index 3). *)

Definition ux_cfg : list chan_config := [ {| cc_id := 0; cc_max := 10000; cc_type := TUnreliable |} ].

Definition ux_send : list sysop :=
  [ SysApi SA (CSend 0 sx_small); SysApi SA (CSend 0 sx_big); SysApi SA CFlush ].
Definition ux_recv5 : list sysop :=
  [ SysApi SB (CRecv 0); SysApi SB (CRecv 0); SysApi SB (CRecv 0); SysApi SB (CRecv 0); SysApi SB (CRecv 0) ].

(* slice 0 delivered twice, slice 1 lost, slice 2 and the small packet delivered once *)
Definition ux_ops_lost : list sysop :=
  ux_send ++ [ SysDeliver SB 0; SysDeliver SB 0; SysDeliver SB 2; SysDeliver SB 3 ] ++ ux_recv5.

(* every packet delivered twice *)
Definition ux_ops_twice : list sysop :=
  ux_send ++ [ SysDeliver SB 0; SysDeliver SB 1; SysDeliver SB 2; SysDeliver SB 3;
               SysDeliver SB 0; SysDeliver SB 1; SysDeliver SB 2; SysDeliver SB 3 ] ++ ux_recv5.

(* every packet delivered twice, each duplicate right after the original: the duplicates of slices
   0 and 1 are absorbed by the open constructor, the duplicate of slice 2 opens a new one that
   never completes: the bound (2) is not reached *)
Definition ux_ops_pairs : list sysop :=
  ux_send ++ [ SysDeliver SB 0; SysDeliver SB 0; SysDeliver SB 1; SysDeliver SB 1;
               SysDeliver SB 2; SysDeliver SB 2; SysDeliver SB 3; SysDeliver SB 3 ] ++ ux_recv5.

Definition ux_summary (r : pres rsys) :=
  match r with
  | Ok s => Some (got_b s, dlv_b s,
                  map (fun b => match from_bytes b with
                                | Ok (UnreliableSlice sq ch sl) => Some (sq, Some (sl_id sl, sl_index sl, sl_num sl))
                                | Ok (SmallUnreliable sq ch ms) => Some (sq, None)
                                | _ => None
                                end) (out_a s),
                  map (slice_copies (out_a s) (dlv_b s) 0 sx_big) [0; 1; 2],
                  copies_bound (out_a s) (dlv_b s) 0 sx_big, count_occ msg_eq_dec (log_get (got_b s) 0) sx_big,
                  copies_bound (out_a s) (dlv_b s) 0 sx_small, count_occ msg_eq_dec (log_get (got_b s) 0) sx_small,
                  is_disconnected (ra s) || is_disconnected (rb s))
  | _ => None
  end.

Example unreliable_lost_slice :
  cfg_u8 ux_cfg /\ Forall (sysop_ok ux_cfg ux_cfg) ux_ops_lost /\
  chan_kind ux_cfg 0 = Some TUnreliable /\ ordf_of ux_cfg 0 = None /\
  ux_summary (run_from_init ux_cfg ux_ops_lost) =
    Some ([(0, [sx_small])], [0; 0; 2; 3]%nat,
          [Some (0, Some (0, 0, 3)); Some (1, Some (0, 1, 3)); Some (2, Some (0, 2, 3)); Some (3, None)],
          [2; 0; 1]%nat, 0%nat, 0%nat, 1%nat, 1%nat, false).
Proof.
  split; [repeat constructor|].
  split; [repeat constructor; cbn [sysop_ok chan_kind ux_cfg find cc_id]; discriminate|].
  split; [reflexivity|]. split; [reflexivity|]. vm_compute. reflexivity.
Qed.

(* the bound is tight: everything delivered twice, both messages obtained twice *)
Example unreliable_obtained_twice :
  Forall (sysop_ok ux_cfg ux_cfg) ux_ops_twice /\
  ux_summary (run_from_init ux_cfg ux_ops_twice) =
    Some ([(0, [sx_big; sx_small; sx_big; sx_small])], [0; 1; 2; 3; 0; 1; 2; 3]%nat,
          [Some (0, Some (0, 0, 3)); Some (1, Some (0, 1, 3)); Some (2, Some (0, 2, 3)); Some (3, None)],
          [2; 2; 2]%nat, 2%nat, 2%nat, 2%nat, 2%nat, false).
Proof.
  split; [repeat constructor; cbn [sysop_ok chan_kind ux_cfg find cc_id]; discriminate|].
  vm_compute. reflexivity.
Qed.

Example unreliable_duplicates_absorbed :
  ux_summary (run_from_init ux_cfg ux_ops_pairs) =
    Some ([(0, [sx_big; sx_small; sx_small])], [0; 0; 1; 1; 2; 2; 3; 3]%nat,
          [Some (0, Some (0, 0, 3)); Some (1, Some (0, 1, 3)); Some (2, Some (0, 2, 3)); Some (3, None)],
          [2; 2; 2]%nat, 2%nat, 1%nat, 2%nat, 2%nat, false).
Proof. vm_compute. reflexivity. Qed.

(* an observation on the model: the duplicate of the last slice, arriving after the message was
   completed, opens a fresh constructor that reserves room for the whole message (3 * SLICE_SIZE
   bytes of the channel's memory) and holds one slice; it can only be completed by further
   duplicates (which is what copies_bound allows), otherwise it stays until discard_old drops it
   (DISCARD_SLICE_SECS after its last slice). *)
Example late_duplicate_opens_constructor :
  (match run_from_init ux_cfg ux_ops_pairs with
  | Ok s => match sm_find 0 (c_ru (rb s)) with
            | Some r => Some (map (fun e => (fst e, sc_num (snd e), sc_nrecv (snd e))) (ru_slices r), ru_mem r,
                              ctor_cnt (ru_slices r) sx_big 2, ctor_cnt (ru_slices r) sx_big 0)
            | None => None
            end
  | _ => None
  end = Some ([(0, 3, 1)], 3600, 1%nat, 0%nat)) /\
  (* four seconds later update() has dropped it *)
  (match run_from_init ux_cfg (ux_ops_pairs ++ [SysApi SB (CUpdate 4000000000)]) with
  | Ok s => match sm_find 0 (c_ru (rb s)) with
            | Some r => Some (map fst (ru_slices r), ru_mem r)
            | None => None
            end
  | _ => None
  end = Some ([], 0)).
Proof. split; vm_compute; reflexivity. Qed.

(* ================================================================== *)
(* 10. the statement without [ordf_of cfg_ab ch = None] is false of the model.
   conn_new accepts one id configured both as unreliable and as reliable (RSysP.cross_kind_duplicate_id);
   chan_kind then says TUnreliable (first entry), but send_message and receive_message use the
   reliable channel: the message travels in a SmallReliable packet, is obtained once, and no
   SmallUnreliable packet carrying it was ever delivered (there is none). *)
Definition dupx_ops : list sysop :=
  [ SysApi SA (CSend 0 (la_msg 7)); SysApi SA CFlush; SysDeliver SB 0; SysApi SB (CRecv 0) ].

Lemma dupx_run :
  match run_from_init dup_cfg dupx_ops with
  | Ok s => count_occ msg_eq_dec (log_get (got_b s) 0) (la_msg 7) = 1%nat /\
            copies_bound (out_a s) (dlv_b s) 0 (la_msg 7) = 0%nat
  | _ => False
  end.
Proof. vm_compute. split; reflexivity. Qed.

Theorem multiplicity_without_distinct_ids_refuted :
  ~ (forall ba bb cfg_ab cfg_ba s0 ops s,
       cfg_u8 cfg_ab -> cfg_u8 cfg_ba ->
       sys_init ba bb cfg_ab cfg_ba = Ok s0 -> sys_run s0 ops = Ok s -> Forall (sysop_ok cfg_ab cfg_ba) ops ->
       forall ch, chan_kind cfg_ab ch = Some TUnreliable ->
       forall m, (count_occ msg_eq_dec (log_get (got_b s) ch) m <= copies_bound (out_a s) (dlv_b s) ch m)%nat).
Proof.
  intros H. pose proof dupx_run as F. unfold run_from_init in F.
  destruct (sys_init 60000 60000 dup_cfg dup_cfg) as [s0| |] eqn:Ei; cbn [bind] in F; try contradiction.
  destruct (sys_run s0 dupx_ops) as [s| |] eqn:Er; try contradiction.
  destruct F as [F1 F2].
  assert (Hu8 : cfg_u8 dup_cfg) by (repeat constructor).
  assert (Hops : Forall (sysop_ok dup_cfg dup_cfg) dupx_ops).
  { repeat constructor; cbn [sysop_ok chan_kind dup_cfg find cc_id]; discriminate. }
  specialize (H 60000 60000 dup_cfg dup_cfg s0 dupx_ops s Hu8 Hu8 Ei Er Hops 0 eq_refl (la_msg 7)).
  lia.
Qed.

(* ================================================================== *)
Print Assumptions sys_unreliable_multiplicity.
Print Assumptions sys_unreliable_multiplicity_ba.
Print Assumptions non_duplicating_network_at_most_once.
Print Assumptions non_duplicating_network_bound.
Print Assumptions lost_slice_loses_message.
Print Assumptions lost_packet_loses_message.
Print Assumptions unreliable_lost_slice.
Print Assumptions unreliable_obtained_twice.
Print Assumptions unreliable_duplicates_absorbed.
Print Assumptions late_duplicate_opens_constructor.
Print Assumptions multiplicity_without_distinct_ids_refuted.
