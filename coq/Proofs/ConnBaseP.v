(* ConnBaseP.v - helpers for the connection-level proofs: sorted-map facts, numeric facts about
   the constants, frame lemmas for the connection invariant, and E1 (construction). *)
From RenetV Require Import Base Consts Varint Packet Channels Conn Server.
From RenetV Require Import CodecSpec RecvSpec SendSpec ConnSpec ConnInvSpec.
From RenetV Require Import SMapP.
From RenetV Require AcksP VarintP PacketP RecvRelP RecvUnrelP SMapSendP SendRelP SendUnrelP DisconnectP.
Require Import Lia ZifyBool ZifyN ZifyNat.
Open Scope N_scope.

Arguments N.add : simpl never.
Arguments N.sub : simpl never.
Arguments N.mul : simpl never.
Arguments N.div : simpl never.
Arguments N.modulo : simpl never.
Arguments N.eqb : simpl never.
Arguments N.ltb : simpl never.
Arguments N.leb : simpl never.
Local Opaque SLICE_SIZE MAX_ACK_RANGES SER_BUFFER NC_MAX_PAYLOAD_BYTES DISCARD_PACKET_SECS VARINT_MAX.

(* ================================================================== *)
(* 0. small generic helpers *)

Lemma bind_ok {E A B} (r : res E A) (f : A -> res E B) b :
  bind r f = Ok b -> exists a, r = Ok a /\ f a = Ok b.
Proof. destruct r; cbn [bind]; intros H; try discriminate. eauto. Qed.

Lemma never_elim {A} (e : never) : A.
Proof. destruct e. Qed.

Lemma lift_ok {A} (r : cres A) a : r = Ok a -> lift r = Ok a.
Proof. intros ->. reflexivity. Qed.

Lemma lift_ok_inv {A} (r : cres A) a : lift r = Ok a -> r = Ok a.
Proof. destruct r; cbn [lift]; intros H; try discriminate. congruence. Qed.

(* ---------- sorted maps: a few more facts in the [asc] vocabulary of SMapP ---------- *)
Section MoreSMap.
  Context {V : Type}.
  Implicit Types (m : list (N * V)) (k : N) (v : V).

  Lemma sm_in_find k v m : asc (map fst m) -> In (k, v) m -> sm_find k m = Some v.
  Proof.
    induction m as [|[a b] t IH]; cbn [map fst sm_find]; intros Hs Hin; [inversion Hin|].
    destruct Hs as [H1 H2]. destruct Hin as [E|Hin].
    - inversion E; subst. rewrite N.eqb_refl. reflexivity.
    - destruct (N.eqb_spec k a) as [->|Hne]; [|auto].
      exfalso. rewrite Forall_forall in H1.
      assert (Hk : In a (map fst t)) by (apply in_map_iff; exists (a, v); auto).
      specialize (H1 _ Hk). lia.
  Qed.

  Lemma sm_find_remove_some k k' v m :
    asc (map fst m) -> sm_find k (sm_remove k' m) = Some v -> k <> k' /\ sm_find k m = Some v.
  Proof.
    intros Hs H. rewrite sm_find_remove in H by exact Hs.
    destruct (N.eqb_spec k k'); [discriminate|]. auto.
  Qed.

  Lemma Forall_find (P : N * V -> Prop) k v m : Forall P m -> sm_find k m = Some v -> P (k, v).
  Proof. apply Forall_sm_find. Qed.

  Lemma sm_mem_insert_mono k k' v m : sm_mem k m = true -> sm_mem k (sm_insert k' v m) = true.
  Proof. intros H. rewrite sm_mem_insert, H. apply orb_true_r. Qed.

  Lemma sm_keys_insert_present k v v0 m :
    asc (map fst m) -> sm_find k m = Some v0 -> map fst (sm_insert k v m) = map fst m.
  Proof.
    induction m as [|[a b] t IH]; cbn [sm_find sm_insert map fst]; intros Hs E; [discriminate|].
    destruct Hs as [H1 H2]. destruct (N.eqb_spec k a) as [->|Hne].
    - destruct (N.ltb_spec a a); [lia|]. reflexivity.
    - destruct (N.ltb_spec k a) as [Hlt|Hge].
      + exfalso. apply sm_find_in in E.
        assert (Hk : In k (map fst t)) by (apply in_map_iff; exists (k, v0); auto).
        rewrite Forall_forall in H1. specialize (H1 _ Hk). lia.
      + cbn [map fst]. f_equal. auto.
  Qed.
End MoreSMap.

Lemma Forall_impl_in {A} (P Q : A -> Prop) l :
  (forall x, In x l -> P x -> Q x) -> Forall P l -> Forall Q l.
Proof.
  intros H F. rewrite Forall_forall in *. auto.
Qed.

(* ================================================================== *)
(* 1. numeric facts about the generated constants, isolated *)

Lemma SER_BUFFER_value : SER_BUFFER = 1400.
Proof. reflexivity. Qed.
Lemma NC_MAX_PAYLOAD_BYTES_value : NC_MAX_PAYLOAD_BYTES = 1300.
Proof. reflexivity. Qed.
Lemma SLICE_SIZE_value : SLICE_SIZE = 1200.
Proof. reflexivity. Qed.
Lemma MAX_ACK_RANGES_value : MAX_ACK_RANGES = 64.
Proof. reflexivity. Qed.
Lemma VARINT_MAX_value : VARINT_MAX = 4611686018427387903.
Proof. reflexivity. Qed.

(* the serialisation buffer is at least as large as the largest payload netcode accepts *)
Lemma payload_le_buffer : NC_MAX_PAYLOAD_BYTES <= SER_BUFFER.
Proof. rewrite NC_MAX_PAYLOAD_BYTES_value, SER_BUFFER_value. lia. Qed.

(* header + body of a SmallReliable packet *)
Lemma small_reliable_fits : 1 + 8 + 1 + 2 + (SLICE_SIZE + 16) <= NC_MAX_PAYLOAD_BYTES.
Proof. rewrite SLICE_SIZE_value, NC_MAX_PAYLOAD_BYTES_value. lia. Qed.
Lemma small_unreliable_fits : 1 + 8 + 1 + 2 + (SLICE_SIZE + 8) <= NC_MAX_PAYLOAD_BYTES.
Proof. rewrite SLICE_SIZE_value, NC_MAX_PAYLOAD_BYTES_value. lia. Qed.
(* header + four varints + payload of a slice packet *)
Lemma slice_fits : 1 + 8 + 1 + 8 + 8 + 8 + 8 + SLICE_SIZE <= NC_MAX_PAYLOAD_BYTES.
Proof. rewrite SLICE_SIZE_value, NC_MAX_PAYLOAD_BYTES_value. lia. Qed.
Lemma ack_fits : 1 + 8 + 8 + 8 + 8 + 16 * (MAX_ACK_RANGES - 1) <= NC_MAX_PAYLOAD_BYTES.
Proof. rewrite MAX_ACK_RANGES_value, NC_MAX_PAYLOAD_BYTES_value. lia. Qed.
Lemma SLICE_SIZE_le_VARINT_MAX : SLICE_SIZE <= VARINT_MAX.
Proof. rewrite SLICE_SIZE_value, VARINT_MAX_value. lia. Qed.

(* ================================================================== *)
(* 2. frame lemmas for the connection invariant *)

Lemma inv_set_status c st : conn_inv c -> conn_inv (set_status c st).
Proof. intros [S1 S2 S3 S4 S5 Isr Isu Irr Iru Iord A1 A2 A3 Isent]. constructor; assumption. Qed.

Lemma inv_disconnect_with c r : conn_inv c -> conn_inv (disconnect_with c r).
Proof. unfold disconnect_with. destruct (is_disconnected c); auto using inv_set_status. Qed.

Lemma inv_with_acks c a :
  conn_inv c -> ranges_wf 0 a -> len a <= MAX_ACK_RANGES -> ranges_below (VARINT_MAX + 1) a ->
  conn_inv (with_acks c a).
Proof. intros [S1 S2 S3 S4 S5 Isr Isu Irr Iru Iord A1 A2 A3 Isent] H1 H2 H3. constructor; assumption. Qed.

Lemma inv_with_seq c q : conn_inv c -> c_seq c <= q -> conn_inv (with_seq c q).
Proof.
  intros [S1 S2 S3 S4 S5 Isr Isu Irr Iru Iord A1 A2 A3 Isent] Hq. constructor; try assumption.
  cbn [with_seq c_sent c_seq c_now c_sr].
  eapply Forall_impl; [|exact Isent]. intros e (H1 & H2). split; [lia|exact H2].
Qed.

Lemma inv_with_rr c ch r : conn_inv c -> rr_inv r -> conn_inv (with_rr c (sm_insert ch r (c_rr c))).
Proof.
  intros [S1 S2 S3 S4 S5 Isr Isu Irr Iru Iord A1 A2 A3 Isent] Hr. constructor; try assumption; cbn [with_rr c_rr].
  - apply asc_sm_insert. assumption.
  - apply Forall_sm_insert; assumption.
Qed.

Lemma inv_with_ru c ch r :
  conn_inv c -> ru_inv (c_now c) r -> conn_inv (with_ru c (sm_insert ch r (c_ru c))).
Proof.
  intros [S1 S2 S3 S4 S5 Isr Isu Irr Iru Iord A1 A2 A3 Isent] Hr. constructor; try assumption; cbn [with_ru c_ru c_now].
  - apply asc_sm_insert. assumption.
  - apply Forall_sm_insert; assumption.
Qed.

Lemma order_ok_insert_sr sr su k v e : order_ok sr su e -> order_ok (sm_insert k v sr) su e.
Proof. unfold order_ok. destruct (fst e); auto using sm_mem_insert_mono. Qed.

Lemma order_ok_insert_su sr su k v e : order_ok sr su e -> order_ok sr (sm_insert k v su) e.
Proof. unfold order_ok. destruct (fst e); auto using sm_mem_insert_mono. Qed.

Lemma inv_with_su c ch s :
  conn_inv c -> su_inv s -> su_ch s = ch -> conn_inv (with_su c (sm_insert ch s (c_su c))).
Proof.
  intros [S1 S2 S3 S4 S5 Isr Isu Irr Iru Iord A1 A2 A3 Isent] Hs Hch. constructor; try assumption; cbn [with_su c_su c_sr c_order].
  - apply asc_sm_insert. assumption.
  - apply Forall_sm_insert; [split; assumption|assumption].
  - eapply Forall_impl; [|exact Iord]. intros e. apply order_ok_insert_su.
Qed.

(* the kind of an id already handed out is stable: it can only be released *)
Definition kind_stable (s s' : send_rel) : Prop :=
  sr_next_id s <= sr_next_id s' /\
  forall id, id < sr_next_id s -> kind_of s' id = kind_of s id \/ kind_of s' id = None.

Lemma kind_stable_refl s : kind_stable s s.
Proof. split; [lia|auto]. Qed.

Lemma kind_stable_trans s1 s2 s3 : kind_stable s1 s2 -> kind_stable s2 s3 -> kind_stable s1 s3.
Proof.
  intros [A1 A2] [B1 B2]. split; [lia|]. intros id Hid.
  destruct (A2 id Hid) as [E|E], (B2 id ltac:(lia)) as [F|F]; rewrite ?F, ?E; auto.
Qed.

Lemma id_small_ok_stable s s' id : kind_stable s s' -> id_small_ok s id -> id_small_ok s' id.
Proof.
  intros [A1 A2] [H1 H2]. split; [lia|].
  destruct (A2 id H1) as [E|E]; rewrite E; auto.
Qed.

Lemma id_slice_ok_stable s s' id idx : kind_stable s s' -> id_slice_ok s id idx -> id_slice_ok s' id idx.
Proof.
  intros [A1 A2] [H1 H2]. split; [lia|].
  destruct (A2 id H1) as [E|E]; rewrite E; auto.
Qed.

Lemma sent_info_ok_update sr ch s s' i :
  sm_find ch sr = Some s -> kind_stable s s' ->
  sent_info_ok sr i -> sent_info_ok (sm_insert ch s' sr) i.
Proof.
  intros Hf Hk. destruct i as [|c ids|c id idx|l]; cbn [sent_info_ok]; auto.
  - intros (s0 & Hs0 & Hids). rewrite sm_find_insert.
    destruct (N.eqb_spec c ch) as [->|Hne]; [|eauto].
    exists s'. split; [reflexivity|]. rewrite Hf in Hs0. inversion Hs0; subst s0.
    eapply Forall_impl; [|exact Hids]. intros id. now apply id_small_ok_stable.
  - intros (s0 & Hs0 & Hid). rewrite sm_find_insert.
    destruct (N.eqb_spec c ch) as [->|Hne]; [|eauto].
    exists s'. split; [reflexivity|]. rewrite Hf in Hs0. inversion Hs0; subst s0.
    now apply (id_slice_ok_stable s).
Qed.

Lemma inv_with_sr c ch s s' :
  conn_inv c -> sm_find ch (c_sr c) = Some s ->
  sr_inv (c_now c) s' -> sr_ch s' = ch -> kind_stable s s' ->
  conn_inv (with_sr c (sm_insert ch s' (c_sr c))).
Proof.
  intros [S1 S2 S3 S4 S5 Isr Isu Irr Iru Iord A1 A2 A3 Isent] Hf Hs Hch Hk. constructor; try assumption; cbn [with_sr c_sr c_su c_order c_sent c_now c_seq].
  - apply asc_sm_insert. assumption.
  - apply Forall_sm_insert; [split; assumption|assumption].
  - eapply Forall_impl; [|exact Iord]. intros e. apply order_ok_insert_sr.
  - eapply Forall_impl; [|exact Isent]. intros e (H1 & H2 & H3).
    split; [exact H1|]. split; [exact H2|]. eapply sent_info_ok_update; eauto.
Qed.

Lemma inv_with_sent c sent :
  conn_inv c -> sorted_keys sent ->
  Forall (fun e => fst e < c_seq c /\ fst (snd e) <= c_now c /\ sent_info_ok (c_sr c) (snd (snd e))) sent ->
  conn_inv (with_sent c sent).
Proof. intros [S1 S2 S3 S4 S5 Isr Isu Irr Iru Iord A1 A2 A3 Isent] H1 H2. constructor; assumption. Qed.

(* lookups under the invariant *)
Lemma inv_find_sr c ch s : conn_inv c -> sm_find ch (c_sr c) = Some s -> sr_inv (c_now c) s /\ sr_ch s = ch.
Proof. intros Hi Hf. exact (Forall_find _ _ _ _ (ci_sr c Hi) Hf). Qed.

Lemma inv_find_su c ch s : conn_inv c -> sm_find ch (c_su c) = Some s -> su_inv s /\ su_ch s = ch.
Proof. intros Hi Hf. exact (Forall_find _ _ _ _ (ci_su c Hi) Hf). Qed.

Lemma inv_find_rr c ch r : conn_inv c -> sm_find ch (c_rr c) = Some r -> rr_inv r.
Proof. intros Hi Hf. exact (Forall_find _ _ _ _ (ci_rr c Hi) Hf). Qed.

Lemma inv_find_ru c ch r : conn_inv c -> sm_find ch (c_ru c) = Some r -> ru_inv (c_now c) r.
Proof. intros Hi Hf. exact (Forall_find _ _ _ _ (ci_ru c Hi) Hf). Qed.

Lemma inv_find_sent c seq t i :
  conn_inv c -> sm_find seq (c_sent c) = Some (t, i) ->
  seq < c_seq c /\ t <= c_now c /\ sent_info_ok (c_sr c) i.
Proof. intros Hi Hf. exact (Forall_find _ _ _ _ (ci_sent c Hi) Hf). Qed.

(* ================================================================== *)
(* 3. E1: construction *)

Definition send_maps_ok (su : list (N * send_unrel)) (sr : list (N * send_rel)) (ord : list (bool * N)) : Prop :=
  sorted_keys su /\ sorted_keys sr /\
  Forall (fun e => su_inv (snd e) /\ su_ch (snd e) = fst e) su /\
  Forall (fun e => sr_inv 0 (snd e) /\ sr_ch (snd e) = fst e) sr /\
  Forall (order_ok sr su) ord.

Lemma build_send_inv cfgs : forall su sr ord, send_maps_ok su sr ord ->
  match build_send cfgs su sr ord with
  | Ok (su', sr', ord') => send_maps_ok su' sr' ord'
  | Err _ => False
  | Panic site => site = SITE_DUP_CHANNEL
  end.
Proof.
  induction cfgs as [|cfg t IH]; intros su sr ord H; cbn [build_send]; [exact H|].
  destruct H as (H1 & H2 & H3 & H4 & H5).
  assert (Hrel : forall rt, sm_mem (cc_id cfg) sr = false ->
    send_maps_ok su (sm_insert (cc_id cfg) (send_rel_new (cc_id cfg) rt (cc_max cfg)) sr)
                 (ord ++ [(true, cc_id cfg)])).
  { intros rt Hm. repeat split; auto.
    - apply asc_sm_insert. exact H2.
    - apply Forall_sm_insert; [|exact H4]. split; [apply SendRelP.sr_inv_init|reflexivity].
    - apply Forall_app. split.
      + eapply Forall_impl; [|exact H5]. intros e. apply order_ok_insert_sr.
      + constructor; [|constructor]. unfold order_ok. cbn [fst snd].
        rewrite sm_mem_insert, N.eqb_refl. reflexivity. }
  destruct (cc_type cfg) as [|rt|rt].
  - destruct (sm_mem (cc_id cfg) su) eqn:Hm; [reflexivity|]. apply IH.
    repeat split; auto.
    + apply asc_sm_insert. exact H1.
    + apply Forall_sm_insert; [|exact H3]. split; [apply SendUnrelP.su_inv_init|reflexivity].
    + apply Forall_app. split.
      * eapply Forall_impl; [|exact H5]. intros e. apply order_ok_insert_su.
      * constructor; [|constructor]. unfold order_ok. cbn [fst snd].
        rewrite sm_mem_insert, N.eqb_refl. reflexivity.
  - destruct (sm_mem (cc_id cfg) sr) eqn:Hm; [reflexivity|]. apply IH. now apply Hrel.
  - destruct (sm_mem (cc_id cfg) sr) eqn:Hm; [reflexivity|]. apply IH. now apply Hrel.
Qed.

Definition recv_maps_ok (ru : list (N * recv_unrel)) (rr : list (N * recv_rel)) : Prop :=
  sorted_keys ru /\ sorted_keys rr /\
  Forall (fun e => ru_inv 0 (snd e)) ru /\ Forall (fun e => rr_inv (snd e)) rr.

Lemma build_recv_inv cfgs : forall ru rr, recv_maps_ok ru rr ->
  match build_recv cfgs ru rr with
  | Ok (ru', rr') => recv_maps_ok ru' rr'
  | Err _ => False
  | Panic site => site = SITE_DUP_CHANNEL
  end.
Proof.
  induction cfgs as [|cfg t IH]; intros ru rr H; cbn [build_recv]; [exact H|].
  destruct H as (H1 & H2 & H3 & H4).
  assert (Hrel : forall o, sm_mem (cc_id cfg) rr = false ->
    recv_maps_ok ru (sm_insert (cc_id cfg) (recv_rel_new (cc_max cfg) o) rr)).
  { intros o Hm. repeat split; auto.
    - apply asc_sm_insert. exact H2.
    - apply Forall_sm_insert; [|exact H4]. apply RecvRelP.rr_inv_init. }
  destruct (cc_type cfg) as [|rt|rt].
  - destruct (sm_mem (cc_id cfg) ru) eqn:Hm; [reflexivity|]. apply IH.
    repeat split; auto.
    + apply asc_sm_insert. exact H1.
    + apply Forall_sm_insert; [|exact H3]. apply RecvUnrelP.ru_inv_init.
  - destruct (sm_mem (cc_id cfg) rr) eqn:Hm; [reflexivity|]. apply IH. now apply Hrel.
  - destruct (sm_mem (cc_id cfg) rr) eqn:Hm; [reflexivity|]. apply IH. now apply Hrel.
Qed.

Lemma conn_new_cases budget scfg rcfg :
  match conn_new budget scfg rcfg with
  | Ok c => conn_inv c /\ c_seq c = 0 /\ c_now c = 0 /\ c_sent c = [] /\ c_acks c = [] /\
            c_budget c = budget /\ c_status c = Connecting
  | Err _ => False
  | Panic site => site = SITE_DUP_CHANNEL
  end.
Proof.
  unfold conn_new.
  pose proof (build_send_inv scfg [] [] []) as HS.
  destruct (build_send scfg [] [] []) as [[[su sr] ord]|e|site]; cbn [bind].
  2:{ destruct e. }
  2:{ apply HS. repeat split; constructor. }
  pose proof (build_recv_inv rcfg [] []) as HR.
  destruct (build_recv rcfg [] []) as [[ru rr]|e|site]; cbn [bind].
  2:{ destruct e. }
  2:{ apply HR. repeat split; constructor. }
  destruct HS as (S1 & S2 & S3 & S4 & S5); [repeat split; constructor|].
  destruct HR as (R1 & R2 & R3 & R4); [repeat split; constructor|].
  split; [|repeat split].
  constructor; cbn [c_sr c_su c_rr c_ru c_sent c_now c_order c_acks c_seq]; auto;
    try constructor.
  rewrite len_nil. lia.
Qed.
