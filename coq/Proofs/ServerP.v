(* ServerP.v - RenetServer: the connection map stays a sorted finite map, the reported events
   alternate Connected / Disconnected per client id, removal reports the connection's own first
   reason, and what a call does to one client's connection depends on that connection only. *)
From RenetV Require Import Base Consts Varint Packet Channels Conn Server ConnSpec.
From RenetV.Proofs Require Import SMapSrvP DisconnectP.
Require Import Lia ZifyBool ZifyN.
Open Scope N_scope.
Arguments N.add : simpl never.
Arguments N.sub : simpl never.
Arguments N.mul : simpl never.
Arguments N.eqb : simpl never.
Arguments N.ltb : simpl never.
Arguments N.leb : simpl never.

(* ------------------------------------------------------------------ *)
(* 6. the invariant: keys of s_conns strictly ascending *)

Definition conns_sorted (s : server) : Prop := sm_sorted (s_conns s).

Lemma conns_sorted_new : forall budget scfg ccfg, conns_sorted (server_new budget scfg ccfg).
Proof. intros. exact I. Qed.

(* ---- the per-connection loops keep the key list ---- *)
Definition send_one (except : option N) (id : N) (c : conn) (ch : N) (m : list N) : pres conn :=
  match except with
  | Some x => if x =? id then Ok c else send_message c ch m
  | None => send_message c ch m
  end.

Lemma send_each_cons : forall id c t ex ch m,
    send_each ((id, c) :: t) ex ch m =
    (do c' <- send_one ex id c ch m; do t' <- send_each t ex ch m; Ok ((id, c') :: t')).
Proof. reflexivity. Qed.

Lemma send_each_keys : forall cs ex ch m cs',
    send_each cs ex ch m = Ok cs' -> map fst cs' = map fst cs.
Proof.
  induction cs as [|[k c] t IH]; intros ex ch m cs'.
  - cbn [send_each]. intros H. injection H as <-. reflexivity.
  - rewrite send_each_cons.
    destruct (send_one ex k c ch m) as [c'|e|p] eqn:E1; cbn [bind]; try discriminate.
    destruct (send_each t ex ch m) as [t'|e|p] eqn:E2; cbn [bind]; try discriminate.
    intros H. injection H as <-. cbn [map fst]. f_equal. eauto.
Qed.

Lemma send_each_find : forall cs ex ch m cs' id c,
    send_each cs ex ch m = Ok cs' -> sm_find id cs = Some c ->
    exists c', send_one ex id c ch m = Ok c' /\ sm_find id cs' = Some c'.
Proof.
  induction cs as [|[k c0] t IH]; intros ex ch m cs' id c.
  - cbn [sm_find]. discriminate.
  - rewrite send_each_cons.
    destruct (send_one ex k c0 ch m) as [c'|e|p] eqn:E1; cbn [bind]; try discriminate.
    destruct (send_each t ex ch m) as [t'|e|p] eqn:E2; cbn [bind]; try discriminate.
    intros H. injection H as <-. cbn [sm_find].
    destruct (id =? k) eqn:Ek.
    + apply N.eqb_eq in Ek. subst k. intros Hc. injection Hc as <-. eauto.
    + intros Hc. eapply IH; eauto.
Qed.

Lemma update_each_keys : forall cs dt cs',
    update_each cs dt = Ok cs' -> map fst cs' = map fst cs.
Proof.
  induction cs as [|[k c] t IH]; intros dt cs'; cbn [update_each].
  - intros H. injection H as <-. reflexivity.
  - destruct (update c dt) as [c'|e|p] eqn:E1; cbn [bind]; try discriminate.
    destruct (update_each t dt) as [t'|e|p] eqn:E2; cbn [bind]; try discriminate.
    intros H. injection H as <-. cbn [map fst]. f_equal. eauto.
Qed.

Lemma update_each_find : forall cs dt cs' id c,
    update_each cs dt = Ok cs' -> sm_find id cs = Some c ->
    exists c', update c dt = Ok c' /\ sm_find id cs' = Some c'.
Proof.
  induction cs as [|[k c0] t IH]; intros dt cs' id c; cbn [update_each].
  - cbn [sm_find]. discriminate.
  - destruct (update c0 dt) as [c'|e|p] eqn:E1; cbn [bind]; try discriminate.
    destruct (update_each t dt) as [t'|e|p] eqn:E2; cbn [bind]; try discriminate.
    intros H. injection H as <-. cbn [sm_find].
    destruct (id =? k) eqn:Ek.
    + intros Hc. injection Hc as <-. eauto.
    + intros Hc. eapply IH; eauto.
Qed.

Lemma map_conn_keys : forall (f : conn -> conn) cs,
    map fst (map (fun ic : N * conn => (fst ic, f (snd ic))) cs) = map fst cs.
Proof.
  intros f cs. induction cs as [|[k c] t IH]; cbn [map fst snd]; [reflexivity | f_equal; exact IH].
Qed.

Lemma map_conn_find : forall (f : conn -> conn) cs id,
    sm_find id (map (fun ic : N * conn => (fst ic, f (snd ic))) cs) =
    match sm_find id cs with Some c => Some (f c) | None => None end.
Proof.
  intros f cs id. induction cs as [|[k c] t IH]; cbn [map fst snd sm_find]; [reflexivity|].
  destruct (id =? k); [reflexivity | exact IH].
Qed.

Lemma find_none_keys : forall {V W} id (m : list (N * V)) (m' : list (N * W)),
    map fst m' = map fst m -> sm_find id m = None -> sm_find id m' = None.
Proof.
  intros V W id m m' E H. apply sm_mem_false. rewrite (sm_mem_keys id m m' E).
  apply sm_mem_find_none. exact H.
Qed.

(* ---- 6: preserved by every step ---- *)
Theorem sstep_sorted : forall s o s' out,
    conns_sorted s -> sstep s o = Ok (s', out) -> conns_sorted s'.
Proof.
  unfold conns_sorted. intros s o s' out Hs H.
  destruct o; cbn [sstep] in H.
  - (* SAdd *)
    unfold add_connection in H. destruct (sm_mem id (s_conns s)) eqn:Em.
    + cbn [bind] in H. injection H as <- <-. exact Hs.
    + destruct (new_from_server s) as [c0|e|p]; cbn [bind] in H; try discriminate.
      injection H as <- <-. cbn [s_conns with_events with_conns].
      apply sm_sorted_insert. exact Hs.
  - (* SRemove *)
    injection H as <- <-. unfold remove_connection.
    destruct (sm_find id (s_conns s)) as [c|]; [|exact Hs].
    cbn [s_conns with_events with_conns]. apply sm_sorted_remove. exact Hs.
  - (* SDisconnect *)
    injection H as <- <-. unfold srv_disconnect.
    destruct (sm_find id (s_conns s)) as [c|]; [|exact Hs].
    cbn [s_conns with_conns]. apply sm_sorted_insert. exact Hs.
  - (* SDisconnectAll *)
    injection H as <- <-. unfold disconnect_all. cbn [s_conns with_conns].
    eapply sm_sorted_keys; [apply (map_conn_keys (fun c => disconnect_with c RDisconnectedByServer)) | exact Hs].
  - (* SBroadcast *)
    unfold broadcast_message in H.
    destruct (send_each (s_conns s) None ch m) as [cs|e|p] eqn:E; cbn [bind] in H; try discriminate.
    injection H as <- <-. cbn [s_conns with_conns].
    eapply sm_sorted_keys; [eapply send_each_keys; exact E | exact Hs].
  - (* SBroadcastExcept *)
    unfold broadcast_message_except in H.
    destruct (send_each (s_conns s) (Some id) ch m) as [cs|e|p] eqn:E; cbn [bind] in H; try discriminate.
    injection H as <- <-. cbn [s_conns with_conns].
    eapply sm_sorted_keys; [eapply send_each_keys; exact E | exact Hs].
  - (* SSend *)
    unfold srv_send_message in H.
    destruct (sm_find id (s_conns s)) as [c|].
    + destruct (send_message c ch m) as [c'|e|p]; cbn [bind] in H; try discriminate.
      injection H as <- <-. cbn [s_conns with_conns]. apply sm_sorted_insert. exact Hs.
    + cbn [bind] in H. injection H as <- <-. exact Hs.
  - (* SRecv *)
    unfold srv_receive_message in H.
    destruct (sm_find id (s_conns s)) as [c|].
    + destruct (receive_message c ch) as [[c' m']|e|p]; cbn [bind] in H; try discriminate.
      injection H as <- <-. cbn [s_conns with_conns]. apply sm_sorted_insert. exact Hs.
    + cbn [bind] in H. injection H as <- <-. exact Hs.
  - (* SUpdate *)
    unfold srv_update in H.
    destruct (update_each (s_conns s) dt) as [cs|e|p] eqn:E; cbn [bind] in H; try discriminate.
    injection H as <- <-. cbn [s_conns with_conns].
    eapply sm_sorted_keys; [eapply update_each_keys; exact E | exact Hs].
  - (* SFlush *)
    unfold srv_get_packets_to_send in H.
    destruct (sm_find id (s_conns s)) as [c|].
    + destruct (get_packets_to_send c) as [[c' pk]|e|p]; cbn [bind] in H; try discriminate.
      injection H as <- <-. cbn [s_conns with_conns]. apply sm_sorted_insert. exact Hs.
    + cbn [bind] in H. injection H as <- <-. exact Hs.
  - (* SProcess *)
    unfold process_packet_from in H.
    destruct (sm_find id (s_conns s)) as [c|].
    + destruct (process_packet c bytes) as [c'|e|p]; cbn [bind] in H; try discriminate.
      injection H as <- <-. cbn [s_conns with_conns]. apply sm_sorted_insert. exact Hs.
    + cbn [bind] in H. injection H as <- <-. exact Hs.
  - (* SGetEvent *)
    unfold get_event in H. destruct (s_events s) as [|e t]; injection H as <- <-; exact Hs.
Qed.

Lemma srun_cons : forall s o t r,
    srun s (o :: t) = Ok r ->
    exists s1 out s2 outs, sstep s o = Ok (s1, out) /\ srun s1 t = Ok (s2, outs) /\ r = (s2, out :: outs).
Proof.
  intros s o t r. cbn [srun].
  destruct (sstep s o) as [[s1 out]|e|p] eqn:E1; cbn [bind]; try discriminate.
  destruct (srun s1 t) as [[s2 outs]|e|p] eqn:E2; cbn [bind]; try discriminate.
  intros H. injection H as <-. exists s1, out, s2, outs. auto.
Qed.

Theorem srun_sorted : forall ops s s' outs,
    conns_sorted s -> srun s ops = Ok (s', outs) -> conns_sorted s'.
Proof.
  induction ops as [|o t IH]; intros s s' outs Hs H.
  - cbn [srun] in H. injection H as <- <-. exact Hs.
  - apply srun_cons in H. destruct H as (s1 & out & s2 & outs' & H1 & H2 & E).
    injection E as -> ->. eapply IH; [|exact H2]. eapply sstep_sorted; eauto.
Qed.

Corollary reachable_sorted : forall budget scfg ccfg ops s outs,
    srun (server_new budget scfg ccfg) ops = Ok (s, outs) -> conns_sorted s.
Proof. intros. eapply srun_sorted; [apply conns_sorted_new | eauto]. Qed.

(* ------------------------------------------------------------------ *)
(* 9. non-interference: one lemma covering present and absent ids *)

Lemma sstep_conns : forall s o s' out id,
    sstep s o = Ok (s', out) -> touches_presence o id = false ->
    match sm_find id (s_conns s) with
    | Some c => exists c', local_step o id c = Ok c' /\ sm_find id (s_conns s') = Some c'
    | None => sm_find id (s_conns s') = None
    end.
Proof.
  intros s o s' out id H Ht.
  destruct o as [x|x|x| |ch m|x ch m|x ch m|x ch|dt|x|x b| ];
    cbn [sstep] in H; cbn [touches_presence] in Ht; cbn [local_step].
  - (* SAdd *)
    unfold add_connection in H. destruct (sm_mem x (s_conns s)) eqn:Em.
    + cbn [bind] in H. injection H as <- <-. destruct (sm_find id (s_conns s)); eauto.
    + destruct (new_from_server s) as [c0|e|p]; cbn [bind] in H; try discriminate.
      injection H as <- <-. cbn [s_conns with_events with_conns].
      rewrite sm_find_insert_neq by lia. destruct (sm_find id (s_conns s)); eauto.
  - (* SRemove *)
    injection H as <- <-. unfold remove_connection.
    destruct (sm_find x (s_conns s)) as [cx|] eqn:Ex.
    + cbn [s_conns with_events with_conns].
      rewrite sm_find_remove_neq by lia. destruct (sm_find id (s_conns s)); eauto.
    + destruct (sm_find id (s_conns s)); eauto.
  - (* SDisconnect *)
    injection H as <- <-. unfold srv_disconnect.
    destruct (x =? id) eqn:E.
    + apply N.eqb_eq in E. subst x.
      destruct (sm_find id (s_conns s)) as [c|] eqn:Ef; [|exact Ef].
      cbn [s_conns with_conns]. rewrite sm_find_insert_eq. eauto.
    + destruct (sm_find x (s_conns s)) as [cx|] eqn:Ex.
      * cbn [s_conns with_conns]. rewrite sm_find_insert_neq by lia.
        destruct (sm_find id (s_conns s)); eauto.
      * destruct (sm_find id (s_conns s)); eauto.
  - (* SDisconnectAll *)
    injection H as <- <-. unfold disconnect_all. cbn [s_conns with_conns].
    rewrite (map_conn_find (fun c => disconnect_with c RDisconnectedByServer)). destruct (sm_find id (s_conns s)); eauto.
  - (* SBroadcast *)
    unfold broadcast_message in H.
    destruct (send_each (s_conns s) None ch m) as [cs|e|p] eqn:E; cbn [bind] in H; try discriminate.
    injection H as <- <-. cbn [s_conns with_conns].
    destruct (sm_find id (s_conns s)) as [c|] eqn:Ef.
    + destruct (send_each_find _ _ _ _ _ _ _ E Ef) as (c' & H1 & H2). cbn [send_one] in H1. eauto.
    + eapply find_none_keys; [eapply send_each_keys; exact E | exact Ef].
  - (* SBroadcastExcept *)
    unfold broadcast_message_except in H.
    destruct (send_each (s_conns s) (Some x) ch m) as [cs|e|p] eqn:E; cbn [bind] in H; try discriminate.
    injection H as <- <-. cbn [s_conns with_conns].
    destruct (sm_find id (s_conns s)) as [c|] eqn:Ef.
    + destruct (send_each_find _ _ _ _ _ _ _ E Ef) as (c' & H1 & H2). cbn [send_one] in H1. eauto.
    + eapply find_none_keys; [eapply send_each_keys; exact E | exact Ef].
  - (* SSend *)
    unfold srv_send_message in H.
    destruct (x =? id) eqn:E.
    + apply N.eqb_eq in E. subst x.
      destruct (sm_find id (s_conns s)) as [c|] eqn:Ef.
      * destruct (send_message c ch m) as [c'|e|p]; cbn [bind] in H; try discriminate.
        injection H as <- <-. cbn [s_conns with_conns]. rewrite sm_find_insert_eq. eauto.
      * injection H as <- <-. exact Ef.
    + destruct (sm_find x (s_conns s)) as [cx|] eqn:Ex.
      * destruct (send_message cx ch m) as [c'|e|p]; cbn [bind] in H; try discriminate.
        injection H as <- <-. cbn [s_conns with_conns]. rewrite sm_find_insert_neq by lia.
        destruct (sm_find id (s_conns s)); eauto.
      * injection H as <- <-. destruct (sm_find id (s_conns s)); eauto.
  - (* SRecv *)
    unfold srv_receive_message in H.
    destruct (x =? id) eqn:E.
    + apply N.eqb_eq in E. subst x.
      destruct (sm_find id (s_conns s)) as [c|] eqn:Ef.
      * destruct (receive_message c ch) as [[c' m']|e|p]; cbn [bind] in H; try discriminate.
        injection H as <- <-. cbn [s_conns with_conns bind fst]. rewrite sm_find_insert_eq. eauto.
      * cbn [bind] in H. injection H as <- <-. exact Ef.
    + destruct (sm_find x (s_conns s)) as [cx|] eqn:Ex.
      * destruct (receive_message cx ch) as [[c' m']|e|p]; cbn [bind] in H; try discriminate.
        injection H as <- <-. cbn [s_conns with_conns]. rewrite sm_find_insert_neq by lia.
        destruct (sm_find id (s_conns s)); eauto.
      * cbn [bind] in H. injection H as <- <-. destruct (sm_find id (s_conns s)); eauto.
  - (* SUpdate *)
    unfold srv_update in H.
    destruct (update_each (s_conns s) dt) as [cs|e|p] eqn:E; cbn [bind] in H; try discriminate.
    injection H as <- <-. cbn [s_conns with_conns].
    destruct (sm_find id (s_conns s)) as [c|] eqn:Ef.
    + eapply update_each_find; eauto.
    + eapply find_none_keys; [eapply update_each_keys; exact E | exact Ef].
  - (* SFlush *)
    unfold srv_get_packets_to_send in H.
    destruct (x =? id) eqn:E.
    + apply N.eqb_eq in E. subst x.
      destruct (sm_find id (s_conns s)) as [c|] eqn:Ef.
      * destruct (get_packets_to_send c) as [[c' pk]|e|p]; cbn [bind] in H; try discriminate.
        injection H as <- <-. cbn [s_conns with_conns bind fst]. rewrite sm_find_insert_eq. eauto.
      * cbn [bind] in H. injection H as <- <-. exact Ef.
    + destruct (sm_find x (s_conns s)) as [cx|] eqn:Ex.
      * destruct (get_packets_to_send cx) as [[c' pk]|e|p]; cbn [bind] in H; try discriminate.
        injection H as <- <-. cbn [s_conns with_conns]. rewrite sm_find_insert_neq by lia.
        destruct (sm_find id (s_conns s)); eauto.
      * cbn [bind] in H. injection H as <- <-. destruct (sm_find id (s_conns s)); eauto.
  - (* SProcess *)
    unfold process_packet_from in H.
    destruct (x =? id) eqn:E.
    + apply N.eqb_eq in E. subst x.
      destruct (sm_find id (s_conns s)) as [c|] eqn:Ef.
      * destruct (process_packet c b) as [c'|e|p]; cbn [bind] in H; try discriminate.
        injection H as <- <-. cbn [s_conns with_conns]. rewrite sm_find_insert_eq. eauto.
      * cbn [bind] in H. injection H as <- <-. exact Ef.
    + destruct (sm_find x (s_conns s)) as [cx|] eqn:Ex.
      * destruct (process_packet cx b) as [c'|e|p]; cbn [bind] in H; try discriminate.
        injection H as <- <-. cbn [s_conns with_conns]. rewrite sm_find_insert_neq by lia.
        destruct (sm_find id (s_conns s)); eauto.
      * cbn [bind] in H. injection H as <- <-. destruct (sm_find id (s_conns s)); eauto.
  - (* SGetEvent *)
    unfold get_event in H. destruct (s_events s) as [|e t]; injection H as <- <-;
      cbn [s_conns with_events]; destruct (sm_find id (s_conns s)); eauto.
Qed.

Theorem server_frame : forall s o s' out id c,
    conns_sorted s -> sstep s o = Ok (s', out) ->
    sm_find id (s_conns s) = Some c -> touches_presence o id = false ->
    exists c', local_step o id c = Ok c' /\ sm_find id (s_conns s') = Some c'.
Proof.
  intros s o s' out id c _ H Hf Ht.
  pose proof (sstep_conns _ _ _ _ id H Ht) as Hc. rewrite Hf in Hc. exact Hc.
Qed.

Theorem server_frame_absent : forall s o s' out id,
    sstep s o = Ok (s', out) ->
    sm_find id (s_conns s) = None -> touches_presence o id = false ->
    sm_find id (s_conns s') = None.
Proof.
  intros s o s' out id H Hf Ht.
  pose proof (sstep_conns _ _ _ _ id H Ht) as Hc. rewrite Hf in Hc. exact Hc.
Qed.

(* what a whole call sequence does to one connection, as a function of that connection alone *)
Fixpoint local_run (ops : list sop) (id : N) (c : conn) : pres conn :=
  match ops with
  | [] => Ok c
  | o :: t => do c1 <- local_step o id c; local_run t id c1
  end.

Theorem server_frame_run : forall ops s s' outs id c,
    conns_sorted s ->
    Forall (fun o => touches_presence o id = false) ops ->
    srun s ops = Ok (s', outs) -> sm_find id (s_conns s) = Some c ->
    exists c', local_run ops id c = Ok c' /\ sm_find id (s_conns s') = Some c'.
Proof.
  induction ops as [|o t IH]; intros s s' outs id c Hs Hall H Hf.
  - cbn [srun] in H. injection H as <- <-. cbn [local_run]. eauto.
  - apply srun_cons in H. destruct H as (s1 & out & s2 & outs' & H1 & H2 & E).
    injection E as -> ->. inversion Hall as [|? ? Ho Ht]; subst.
    destruct (server_frame _ _ _ _ _ _ Hs H1 Hf Ho) as (c1 & L1 & F1).
    destruct (IH _ _ _ _ _ (sstep_sorted _ _ _ _ Hs H1) Ht H2 F1) as (c' & L2 & F2).
    exists c'. split; [|exact F2]. cbn [local_run]. rewrite L1. cbn [bind]. exact L2.
Qed.

Theorem server_frame_run_absent : forall ops s s' outs id,
    Forall (fun o => touches_presence o id = false) ops ->
    srun s ops = Ok (s', outs) -> sm_find id (s_conns s) = None ->
    sm_find id (s_conns s') = None.
Proof.
  induction ops as [|o t IH]; intros s s' outs id Hall H Hf.
  - cbn [srun] in H. injection H as <- <-. exact Hf.
  - apply srun_cons in H. destruct H as (s1 & out & s2 & outs' & H1 & H2 & E).
    injection E as -> ->. inversion Hall as [|? ? Ho Ht]; subst.
    eapply IH; [exact Ht | exact H2 |]. eapply server_frame_absent; eauto.
Qed.

(* ------------------------------------------------------------------ *)
(* 7. events alternate *)

Lemma last_is_connect_snoc : forall id l e cur,
    last_is_connect id (l ++ [e]) cur =
    if ev_id e =? id then ev_is_connect e else last_is_connect id l cur.
Proof.
  intros id l e. induction l as [|a l IH]; intros cur; cbn [app last_is_connect].
  - reflexivity.
  - apply IH.
Qed.

Lemma alternates_snoc : forall id l e b,
    alternates id b l ->
    (ev_id e =? id = true -> ev_is_connect e = negb (last_is_connect id l (negb b))) ->
    alternates id b (l ++ [e]).
Proof.
  intros id l e. induction l as [|a l IH]; intros b Ha He; cbn [app alternates].
  - cbn [last_is_connect] in He. destruct (ev_id e =? id) eqn:E; [|exact I].
    split; [|exact I]. rewrite He by reflexivity. apply negb_involutive.
  - cbn [alternates last_is_connect] in Ha, He.
    destruct (ev_id a =? id) eqn:E.
    + destruct Ha as [Ha1 Ha2]. split; [exact Ha1|]. apply IH; [exact Ha2|].
      rewrite negb_involutive. rewrite Ha1 in He. exact He.
    + apply IH; assumption.
Qed.

Lemma taken_events_cons : forall out outs,
    taken_events (out :: outs) = taken_events [out] ++ taken_events outs.
Proof.
  intros out outs. destruct out as [| | |[e|]]; reflexivity.
Qed.

(* T = the events the application has already taken out *)
Definition ev_inv (T : list event) (s : server) : Prop :=
  forall id, alternates id true (T ++ s_events s) /\
             sm_mem id (s_conns s) = last_is_connect id (T ++ s_events s) false.

Lemma ev_inv_same : forall T s s',
    ev_inv T s -> s_events s' = s_events s ->
    (forall id, sm_mem id (s_conns s') = sm_mem id (s_conns s)) -> ev_inv T s'.
Proof.
  intros T s s' Hi He Hm id. rewrite He, Hm. apply Hi.
Qed.

Lemma ev_inv_connect : forall T s s' x,
    ev_inv T s -> sm_mem x (s_conns s) = false ->
    s_events s' = s_events s ++ [EvConnected x] ->
    (forall id, sm_mem id (s_conns s') = (id =? x) || sm_mem id (s_conns s)) -> ev_inv T s'.
Proof.
  intros T s s' x Hi Hx He Hm id. destruct (Hi id) as [Ha Hl].
  rewrite He, Hm, app_assoc. split.
  - apply alternates_snoc; [exact Ha|]. cbn [ev_id ev_is_connect negb]. intros E.
    apply N.eqb_eq in E. subst x. rewrite <- Hl, Hx. reflexivity.
  - rewrite last_is_connect_snoc. cbn [ev_id ev_is_connect]. rewrite (N.eqb_sym x id).
    destruct (id =? x); cbn [orb]; [reflexivity | exact Hl].
Qed.

Lemma ev_inv_disconnect : forall T s s' x r,
    ev_inv T s -> sm_mem x (s_conns s) = true ->
    s_events s' = s_events s ++ [EvDisconnected x r] ->
    (forall id, sm_mem id (s_conns s') = negb (id =? x) && sm_mem id (s_conns s)) -> ev_inv T s'.
Proof.
  intros T s s' x r Hi Hx He Hm id. destruct (Hi id) as [Ha Hl].
  rewrite He, Hm, app_assoc. split.
  - apply alternates_snoc; [exact Ha|]. cbn [ev_id ev_is_connect negb]. intros E.
    apply N.eqb_eq in E. subst x. rewrite <- Hl, Hx. reflexivity.
  - rewrite last_is_connect_snoc. cbn [ev_id ev_is_connect]. rewrite (N.eqb_sym x id).
    destruct (id =? x); cbn [negb andb]; [reflexivity | exact Hl].
Qed.

Lemma ev_inv_take : forall T s s' e t,
    ev_inv T s -> s_events s = e :: t -> s_events s' = t ->
    (forall id, sm_mem id (s_conns s') = sm_mem id (s_conns s)) -> ev_inv (T ++ [e]) s'.
Proof.
  intros T s s' e t Hi He He' Hm id. rewrite He', Hm, <- app_assoc. cbn [app].
  rewrite <- He. apply Hi.
Qed.

(* steps other than SAdd / SRemove keep every id's presence *)
Lemma sstep_mem_same : forall s o s' out,
    sstep s o = Ok (s', out) -> (forall id, touches_presence o id = false) ->
    forall id, sm_mem id (s_conns s') = sm_mem id (s_conns s).
Proof.
  intros s o s' out H Ht id. pose proof (sstep_conns _ _ _ _ id H (Ht id)) as Hc.
  unfold sm_mem. destruct (sm_find id (s_conns s)) as [c|].
  - destruct Hc as (c' & _ & Hc). rewrite Hc. reflexivity.
  - rewrite Hc. reflexivity.
Qed.

(* only SAdd, SRemove and SGetEvent touch the event queue *)
Lemma sstep_events_same : forall s o s' out,
    sstep s o = Ok (s', out) ->
    match o with SAdd _ | SRemove _ | SGetEvent => True | _ => s_events s' = s_events s /\ taken_events [out] = [] end.
Proof.
  intros s o s' out H.
  destruct o as [x|x|x| |ch m|x ch m|x ch m|x ch|dt|x|x b| ]; cbn [sstep] in H; try exact I.
  - injection H as <- <-. unfold srv_disconnect. destruct (sm_find x (s_conns s)); auto.
  - injection H as <- <-. auto.
  - unfold broadcast_message in H.
    destruct (send_each (s_conns s) None ch m); cbn [bind] in H; try discriminate.
    injection H as <- <-. auto.
  - unfold broadcast_message_except in H.
    destruct (send_each (s_conns s) (Some x) ch m); cbn [bind] in H; try discriminate.
    injection H as <- <-. auto.
  - unfold srv_send_message in H. destruct (sm_find x (s_conns s)) as [c|].
    + destruct (send_message c ch m); cbn [bind] in H; try discriminate. injection H as <- <-. auto.
    + cbn [bind] in H. injection H as <- <-. auto.
  - unfold srv_receive_message in H. destruct (sm_find x (s_conns s)) as [c|].
    + destruct (receive_message c ch) as [[c' m']|e|p]; cbn [bind] in H; try discriminate.
      injection H as <- <-. auto.
    + cbn [bind] in H. injection H as <- <-. auto.
  - unfold srv_update in H.
    destruct (update_each (s_conns s) dt); cbn [bind] in H; try discriminate.
    injection H as <- <-. auto.
  - unfold srv_get_packets_to_send in H. destruct (sm_find x (s_conns s)) as [c|].
    + destruct (get_packets_to_send c) as [[c' pk]|e|p]; cbn [bind] in H; try discriminate.
      injection H as <- <-. auto.
    + cbn [bind] in H. injection H as <- <-. auto.
  - unfold process_packet_from in H. destruct (sm_find x (s_conns s)) as [c|].
    + destruct (process_packet c b); cbn [bind] in H; try discriminate. injection H as <- <-. auto.
    + cbn [bind] in H. injection H as <- <-. auto.
Qed.

Lemma sstep_ev_inv : forall T s o s' out,
    conns_sorted s -> ev_inv T s -> sstep s o = Ok (s', out) ->
    ev_inv (T ++ taken_events [out]) s'.
Proof.
  intros T s o s' out Hs Hi H.
  assert (Hgen : (forall id, touches_presence o id = false) ->
                 s_events s' = s_events s /\ taken_events [out] = [] ->
                 ev_inv (T ++ taken_events [out]) s').
  { intros Ht [He Hk]. rewrite Hk, app_nil_r.
    eapply ev_inv_same; [exact Hi | exact He | eapply sstep_mem_same; eauto]. }
  pose proof (sstep_events_same _ _ _ _ H) as Hev.
  destruct o as [x|x|x| |ch m|x ch m|x ch m|x ch|dt|x|x b| ];
    try (apply Hgen; [intros; reflexivity | exact Hev]); clear Hgen Hev; cbn [sstep] in H.
  - (* SAdd *)
    unfold add_connection in H. destruct (sm_mem x (s_conns s)) eqn:Em.
    + cbn [bind] in H. injection H as <- <-. cbn [taken_events]. rewrite app_nil_r. exact Hi.
    + destruct (new_from_server s) as [c0|e|p]; cbn [bind] in H; try discriminate.
      injection H as <- <-. cbn [taken_events]. rewrite app_nil_r.
      eapply ev_inv_connect; [exact Hi | exact Em | reflexivity |].
      intros id. cbn [s_conns with_events with_conns]. apply sm_mem_insert.
  - (* SRemove *)
    injection H as <- <-. cbn [taken_events]. rewrite app_nil_r. unfold remove_connection.
    destruct (sm_find x (s_conns s)) as [cx|] eqn:Ex; [|exact Hi].
    eapply ev_inv_disconnect; [exact Hi | eapply sm_mem_find_some; exact Ex | reflexivity |].
    intros id. cbn [s_conns with_events with_conns]. apply sm_mem_remove. exact Hs.
  - (* SGetEvent *)
    unfold get_event in H. destruct (s_events s) as [|e t] eqn:Ee.
    + injection H as <- <-. cbn [taken_events]. rewrite app_nil_r. exact Hi.
    + injection H as <- <-. cbn [taken_events].
      eapply ev_inv_take; [exact Hi | exact Ee | reflexivity | reflexivity].
Qed.

Lemma srun_ev_inv : forall ops T s s' outs,
    conns_sorted s -> ev_inv T s -> srun s ops = Ok (s', outs) ->
    ev_inv (T ++ taken_events outs) s'.
Proof.
  induction ops as [|o t IH]; intros T s s' outs Hs Hi H.
  - cbn [srun] in H. injection H as <- <-. cbn [taken_events]. rewrite app_nil_r. exact Hi.
  - apply srun_cons in H. destruct H as (s1 & out & s2 & outs' & H1 & H2 & E).
    injection E as -> ->. rewrite taken_events_cons, app_assoc.
    eapply IH; [eapply sstep_sorted; eauto | | exact H2].
    eapply sstep_ev_inv; eauto.
Qed.

Lemma ev_inv_new : forall budget scfg ccfg, ev_inv [] (server_new budget scfg ccfg).
Proof. intros budget scfg ccfg id. cbn. split; [exact I | reflexivity]. Qed.

Theorem events_alternate : forall budget scfg ccfg ops s outs,
    srun (server_new budget scfg ccfg) ops = Ok (s, outs) ->
    forall id, alternates id true (all_events s outs) /\
               sm_mem id (s_conns s) = last_is_connect id (all_events s outs) false.
Proof.
  intros budget scfg ccfg ops s outs H.
  pose proof (srun_ev_inv ops [] _ _ _ (conns_sorted_new budget scfg ccfg) (ev_inv_new budget scfg ccfg) H) as Hi.
  cbn [app] in Hi. exact Hi.
Qed.

(* ------------------------------------------------------------------ *)
(* 8. removal reports the connection's own first reason *)

Theorem removal_reports_first_reason : forall s id c,
    conns_sorted s -> sm_find id (s_conns s) = Some c ->
    s_events (remove_connection s id) =
      s_events s ++ [EvDisconnected id (match disconnect_reason c with Some r => r | None => RTransport end)]
    /\ sm_find id (s_conns (remove_connection s id)) = None.
Proof.
  intros s id c Hs Hf. unfold remove_connection. rewrite Hf.
  cbn [s_conns s_events with_events with_conns]. split; [reflexivity|].
  apply sm_find_remove_eq. exact Hs.
Qed.

Theorem remove_connection_absent : forall s id,
    sm_find id (s_conns s) = None -> remove_connection s id = s.
Proof. intros s id Hf. unfold remove_connection. rewrite Hf. reflexivity. Qed.

(* the others are untouched *)
Theorem remove_connection_others : forall s id j,
    j <> id -> sm_find j (s_conns (remove_connection s id)) = sm_find j (s_conns s).
Proof.
  intros s id j Hn. unfold remove_connection. destruct (sm_find id (s_conns s)); [|reflexivity].
  cbn [s_conns with_events with_conns]. apply sm_find_remove_neq. exact Hn.
Qed.

Theorem disconnect_local_reports_first_reason : forall s id c client,
    conns_sorted s -> is_disconnected client = false -> sm_find id (s_conns s) = Some c ->
    let s' := fst (disconnect_local_client s id client) in
    s_events s' =
      s_events s ++ [EvDisconnected id (match disconnect_reason c with Some r => r | None => RDisconnectedByClient end)]
    /\ sm_find id (s_conns s') = None
    /\ c_status (snd (disconnect_local_client s id client)) = Disconnected RDisconnectedByClient.
Proof.
  intros s id c client Hs Hc Hf. unfold disconnect_local_client. rewrite Hc, Hf.
  cbn [fst snd s_conns s_events with_events with_conns]. split; [reflexivity|]. split.
  - apply sm_find_remove_eq. exact Hs.
  - unfold disconnect, disconnect_with. rewrite Hc. reflexivity.
Qed.

Theorem disconnect_local_absent : forall s id client,
    sm_find id (s_conns s) = None -> fst (disconnect_local_client s id client) = s.
Proof.
  intros s id client Hf. unfold disconnect_local_client.
  destruct (is_disconnected client); [reflexivity|]. rewrite Hf. reflexivity.
Qed.

(* an already disconnected local client handle makes the call a no-op, even if the server still
   holds the connection *)
Theorem disconnect_local_client_disconnected : forall s id client,
    is_disconnected client = true -> disconnect_local_client s id client = (s, client).
Proof. intros s id client H. unfold disconnect_local_client. rewrite H. reflexivity. Qed.

(* the reported reason is the stored first reason whenever the connection had one *)
Corollary removal_reason_is_status : forall s id c r,
    sm_find id (s_conns s) = Some c -> c_status c = Disconnected r ->
    s_events (remove_connection s id) = s_events s ++ [EvDisconnected id r].
Proof.
  intros s id c r Hf Hst. unfold remove_connection, disconnect_reason. rewrite Hf, Hst. reflexivity.
Qed.

(* ------------------------------------------------------------------ *)
(* 10. broadcast reaches exactly the connections in the map, each independently *)

Theorem broadcast_exact : forall s ch m s',
    conns_sorted s -> broadcast_message s ch m = Ok s' ->
    map fst (s_conns s') = map fst (s_conns s) /\
    forall id c, sm_find id (s_conns s) = Some c ->
                 exists c', send_message c ch m = Ok c' /\ sm_find id (s_conns s') = Some c'.
Proof.
  intros s ch m s' _ H. unfold broadcast_message in H.
  destruct (send_each (s_conns s) None ch m) as [cs|e|p] eqn:E; cbn [bind] in H; try discriminate.
  injection H as <-. cbn [s_conns with_conns].
  split; [eapply send_each_keys; exact E|].
  intros id c Hf. destruct (send_each_find _ _ _ _ _ _ _ E Hf) as (c' & H1 & H2). eauto.
Qed.

Theorem broadcast_events : forall s ch m s',
    broadcast_message s ch m = Ok s' -> s_events s' = s_events s.
Proof.
  intros s ch m s' H. unfold broadcast_message in H.
  destruct (send_each (s_conns s) None ch m) as [cs|e|p]; cbn [bind] in H; try discriminate.
  injection H as <-. reflexivity.
Qed.

(* ids that are not in the map stay out of it *)
Theorem broadcast_absent : forall s ch m s' id,
    broadcast_message s ch m = Ok s' -> sm_find id (s_conns s) = None -> sm_find id (s_conns s') = None.
Proof.
  intros s ch m s' id H Hf. unfold broadcast_message in H.
  destruct (send_each (s_conns s) None ch m) as [cs|e|p] eqn:E; cbn [bind] in H; try discriminate.
  injection H as <-. cbn [s_conns with_conns].
  eapply find_none_keys; [eapply send_each_keys; exact E | exact Hf].
Qed.

Theorem broadcast_except_exact : forall s x ch m s',
    conns_sorted s -> broadcast_message_except s x ch m = Ok s' ->
    map fst (s_conns s') = map fst (s_conns s) /\
    (forall id c, id <> x -> sm_find id (s_conns s) = Some c ->
                  exists c', send_message c ch m = Ok c' /\ sm_find id (s_conns s') = Some c') /\
    sm_find x (s_conns s') = sm_find x (s_conns s).
Proof.
  intros s x ch m s' _ H. unfold broadcast_message_except in H.
  destruct (send_each (s_conns s) (Some x) ch m) as [cs|e|p] eqn:E; cbn [bind] in H; try discriminate.
  injection H as <-. cbn [s_conns with_conns].
  split; [eapply send_each_keys; exact E|]. split.
  - intros id c Hn Hf. destruct (send_each_find _ _ _ _ _ _ _ E Hf) as (c' & H1 & H2).
    cbn [send_one] in H1. destruct (x =? id) eqn:Ex; [lia|]. eauto.
  - destruct (sm_find x (s_conns s)) as [c|] eqn:Hf.
    + destruct (send_each_find _ _ _ _ _ _ _ E Hf) as (c' & H1 & H2).
      cbn [send_one] in H1. rewrite N.eqb_refl in H1. injection H1 as <-. exact H2.
    + eapply find_none_keys; [eapply send_each_keys; exact E | exact Hf].
Qed.

Theorem broadcast_except_events : forall s x ch m s',
    broadcast_message_except s x ch m = Ok s' -> s_events s' = s_events s.
Proof.
  intros s x ch m s' H. unfold broadcast_message_except in H.
  destruct (send_each (s_conns s) (Some x) ch m) as [cs|e|p]; cbn [bind] in H; try discriminate.
  injection H as <-. reflexivity.
Qed.

(* "only currently connected clients are reached": a disconnected entry is left as it is *)
Corollary broadcast_skips_disconnected : forall s ch m s' id c,
    broadcast_message s ch m = Ok s' -> sm_find id (s_conns s) = Some c ->
    is_disconnected c = true -> sm_find id (s_conns s') = Some c.
Proof.
  intros s ch m s' id c H Hf Hd. unfold broadcast_message in H.
  destruct (send_each (s_conns s) None ch m) as [cs|e|p] eqn:E; cbn [bind] in H; try discriminate.
  injection H as <-. cbn [s_conns with_conns].
  destruct (send_each_find _ _ _ _ _ _ _ E Hf) as (c' & H1 & H2). cbn [send_one] in H1.
  rewrite send_message_disconnected_noop in H1 by exact Hd. injection H1 as <-. exact H2.
Qed.

(* ------------------------------------------------------------------ *)
(* 11. attribution *)

Theorem attribution : forall s id ch s' m,
    srv_receive_message s id ch = Ok (s', Some m) ->
    exists c c', sm_find id (s_conns s) = Some c /\ receive_message c ch = Ok (c', Some m).
Proof.
  intros s id ch s' m. unfold srv_receive_message.
  destruct (sm_find id (s_conns s)) as [c|] eqn:Ef.
  - destruct (receive_message c ch) as [[c' m']|e|p] eqn:Er; cbn [bind]; try discriminate.
    intros H. injection H as <- ->. eauto.
  - intros H. discriminate.
Qed.

(* and the message was taken out of that very connection *)
Theorem attribution_state : forall s id ch s' m,
    srv_receive_message s id ch = Ok (s', Some m) ->
    exists c c', sm_find id (s_conns s) = Some c /\ receive_message c ch = Ok (c', Some m) /\
                 sm_find id (s_conns s') = Some c' /\
                 forall j, j <> id -> sm_find j (s_conns s') = sm_find j (s_conns s).
Proof.
  intros s id ch s' m. unfold srv_receive_message.
  destruct (sm_find id (s_conns s)) as [c|] eqn:Ef.
  - destruct (receive_message c ch) as [[c' m']|e|p] eqn:Er; cbn [bind]; try discriminate.
    intros H. injection H as <- ->. exists c, c'. cbn [s_conns with_conns].
    split; [reflexivity|]. split; [exact Er|]. split; [apply sm_find_insert_eq|].
    intros j Hn. apply sm_find_insert_neq. exact Hn.
  - intros H. discriminate.
Qed.

Theorem process_packet_from_others : forall s b id s' ok,
    process_packet_from s b id = Ok (s', ok) ->
    forall j, j <> id -> sm_find j (s_conns s') = sm_find j (s_conns s).
Proof.
  intros s b id s' ok. unfold process_packet_from.
  destruct (sm_find id (s_conns s)) as [c|] eqn:Ef.
  - destruct (process_packet c b) as [c'|e|p] eqn:Ep; cbn [bind]; try discriminate.
    intros H. injection H as <- <-. intros j Hn. cbn [s_conns with_conns].
    apply sm_find_insert_neq. exact Hn.
  - intros H. injection H as <- <-. reflexivity.
Qed.

Theorem process_packet_from_self : forall s b id s' ok,
    process_packet_from s b id = Ok (s', ok) ->
    s_events s' = s_events s /\
    match sm_find id (s_conns s) with
    | Some c => ok = true /\ exists c', process_packet c b = Ok c' /\ sm_find id (s_conns s') = Some c'
    | None => ok = false /\ s' = s
    end.
Proof.
  intros s b id s' ok. unfold process_packet_from.
  destruct (sm_find id (s_conns s)) as [c|] eqn:Ef.
  - destruct (process_packet c b) as [c'|e|p] eqn:Ep; cbn [bind]; try discriminate.
    intros H. injection H as <- <-. cbn [s_conns s_events with_conns].
    split; [reflexivity|]. split; [reflexivity|]. exists c'. split; [reflexivity|].
    apply sm_find_insert_eq.
  - intros H. injection H as <- <-. auto.
Qed.

(* ------------------------------------------------------------------ *)
(* 12. non-vacuity *)

Definition ex_chan : list chan_config :=
  [ {| cc_id := 0; cc_max := 10000; cc_type := TReliableOrdered 300 |} ].
Definition ex_server : server := server_new 60000 ex_chan ex_chan.

Definition ex_ops : list sop :=
  [SAdd 7; SAdd 3; SSend 3 0 [1;2;3]; SDisconnect 7; SAdd 7; SRemove 7; SGetEvent; SGetEvent; SGetEvent; SGetEvent].

Definition run_summary (s : server) (ops : list sop) :=
  match srun s ops with
  | Ok (s', outs) => Some (taken_events outs, s_events s', map fst (s_conns s'))
  | _ => None
  end.

Example ex_run :
  run_summary ex_server ex_ops =
  Some ([EvConnected 7; EvConnected 3; EvDisconnected 7 RDisconnectedByServer], [], [3]).
Proof. vm_compute. reflexivity. Qed.

(* the hypotheses of events_alternate hold of this run, and its conclusion can be read off *)
Example ex_run_alternates :
  exists s outs, srun ex_server ex_ops = Ok (s, outs) /\
    all_events s outs = [EvConnected 7; EvConnected 3; EvDisconnected 7 RDisconnectedByServer] /\
    alternates 7 true (all_events s outs) /\ alternates 3 true (all_events s outs) /\
    sm_mem 7 (s_conns s) = false /\ sm_mem 3 (s_conns s) = true.
Proof.
  destruct (srun ex_server ex_ops) as [[s outs]|e|p] eqn:E; [|vm_compute in E; discriminate ..].
  exists s, outs. split; [reflexivity|].
  pose proof (events_alternate _ _ _ _ _ _ E) as Ha.
  assert (Hev : all_events s outs = [EvConnected 7; EvConnected 3; EvDisconnected 7 RDisconnectedByServer]).
  { vm_compute in E. injection E as <- <-. reflexivity. }
  split; [exact Hev|].
  destruct (Ha 7) as [A7 M7]. destruct (Ha 3) as [A3 M3].
  repeat split; try assumption.
  - rewrite M7, Hev. reflexivity.
  - rewrite M3, Hev. reflexivity.
Qed.

(* re-adding after removal gives Connected again, and a removal with no recorded reason reports
   RTransport *)
Example ex_run2 :
  run_summary ex_server [SAdd 1; SRemove 1; SRemove 1; SAdd 1; SAdd 1; SGetEvent] =
  Some ([EvConnected 1], [EvDisconnected 1 RTransport; EvConnected 1], [1]).
Proof. vm_compute. reflexivity. Qed.

(* oddity: after srv_disconnect the (disconnected) connection object stays in the map until
   remove_connection, so adding the same id again is a silent no-op - no second Connected event and
   the client stays disconnected *)
Example ex_readd_while_disconnected :
  match srun ex_server [SAdd 5; SDisconnect 5; SAdd 5; SGetEvent; SGetEvent] with
  | Ok (s', outs) => Some (taken_events outs, s_events s', srv_is_connected s' 5, srv_disconnect_reason s' 5)
  | _ => None
  end = Some ([EvConnected 5], [], false, Some RDisconnectedByServer).
Proof. vm_compute. reflexivity. Qed.

(* non-interference is not vacuous: client 3's connection after the run of ex_ops minus the
   operations on 7 equals its connection after the full run *)
Example ex_frame :
  match srun ex_server [SAdd 7; SAdd 3], srun ex_server [SAdd 7; SAdd 3; SSend 3 0 [1;2;3]; SDisconnect 7; SProcess 7 [255;255]; SRemove 7; SBroadcast 0 [9]] with
  | Ok (s0, _), Ok (s1, _) =>
      match sm_find 3 (s_conns s0) with
      | Some c =>
          match local_run [SSend 3 0 [1;2;3]; SDisconnect 7; SProcess 7 [255;255]; SRemove 7; SBroadcast 0 [9]] 3 c with
          | Ok c' => sm_find 3 (s_conns s1) = Some c'
          | _ => False
          end
      | None => False
      end
  | _, _ => False
  end.
Proof. vm_compute. reflexivity. Qed.

Print Assumptions conns_sorted_new.
Print Assumptions sstep_sorted.
Print Assumptions srun_sorted.
Print Assumptions events_alternate.
Print Assumptions removal_reports_first_reason.
Print Assumptions remove_connection_absent.
Print Assumptions disconnect_local_reports_first_reason.
Print Assumptions server_frame.
Print Assumptions server_frame_absent.
Print Assumptions server_frame_run.
Print Assumptions broadcast_exact.
Print Assumptions broadcast_except_exact.
Print Assumptions broadcast_events.
Print Assumptions broadcast_except_events.
Print Assumptions broadcast_skips_disconnected.
Print Assumptions attribution.
Print Assumptions process_packet_from_others.
Print Assumptions ex_run.
Print Assumptions ex_run_alternates.
Print Assumptions ex_frame.
