(* RLiveBaseP.v - building blocks of the liveness proofs (Spec/RLiveSpec.v):
   1. pending acknowledgements: a run of fresh consecutive sequence numbers is kept;
   2. the parts still to be acknowledged as a duplicate-free list whose length is [outstanding];
   3. the channel send order lists every reliable send channel exactly once;
   4. progress of a reliable receive channel along honest events, without the event history. *)
From RenetV Require Import Base Consts Varint Packet Channels Conn Server.
From RenetV Require Import CodecSpec RecvSpec SendSpec ConnSpec ConnInvSpec RSysSpec RSysInvSpec RLiveSpec.
From RenetV Require Import SMapP ConnBaseP ConnProcP ConnFlushP ConnP RSysBaseP RSysStepP RSysInvP RSysP.
From RenetV Require AcksP VarintP PacketP RecvRelP RecvUnrelP SMapSendP SendRelP SendUnrelP DisconnectP ConnEncP SliceP.
Require Import Lia ZifyBool ZifyN ZifyNat Permutation.
Open Scope N_scope.

Arguments N.add : simpl never.
Arguments N.sub : simpl never.
Arguments N.mul : simpl never.
Arguments N.div : simpl never.
Arguments N.modulo : simpl never.
Arguments N.eqb : simpl never.
Arguments N.ltb : simpl never.
Arguments N.leb : simpl never.
Local Opaque SLICE_SIZE MAX_ACK_RANGES SER_BUFFER NC_MAX_PAYLOAD_BYTES DISCARD_PACKET_SECS VARINT_MAX MAX_NUM_SLICES.

Import SendRelP(st_of, static_of, pkt_ok, entry_ok, packed, part_acked).

(* ================================================================== *)
(* 1. pending acknowledgements *)

(* the last range of the list ends at [hi] and covers [lo, hi) *)
Definition ends_with (l : list (N * N)) (lo hi : N) : Prop :=
  exists pre a, l = pre ++ [(a, hi)] /\ a <= lo /\ lo < hi.

Lemma ins_extend_last : forall pre lo0 a hi,
  ranges_wf lo0 (pre ++ [(a, hi)]) ->
  AcksP.ins hi (pre ++ [(a, hi)]) = pre ++ [(a, hi + 1)] /\ ack_inserts hi (pre ++ [(a, hi)]) = false.
Proof.
  induction pre as [|[a' b'] t IH]; intros lo0 a hi Hwf; cbn [app AcksP.ins ack_inserts] in *.
  - cbn [ranges_wf] in Hwf. destruct Hwf as (H1 & H2 & _).
    destruct (N.leb_spec a hi), (N.ltb_spec hi hi); cbn [andb]; try lia.
    destruct (N.eqb_spec a (hi + 1)); [lia|]. rewrite N.eqb_refl. auto.
  - cbn [ranges_wf] in Hwf. destruct Hwf as (H1 & H2 & H3).
    assert (Hb : b' + 1 <= hi).
    { clear IH. revert H3. generalize (b' + 1). induction t as [|[a2 b2] t IHt]; intros lo1 H3; cbn [app ranges_wf] in H3.
      - lia.
      - destruct H3 as (A1 & A2 & A3). specialize (IHt _ A3). lia. }
    destruct (IH _ _ _ H3) as [E1 E2].
    assert (E : (a' <=? hi) && (hi <? b') = false) by (destruct (N.leb_spec a' hi), (N.ltb_spec hi b'); cbn [andb]; lia).
    rewrite E. destruct (N.eqb_spec a' (hi + 1)); [lia|]. destruct (N.eqb_spec b' hi); [lia|].
    destruct (N.ltb_spec (hi + 1) a'); [lia|]. rewrite E1, E2. auto.
Qed.

Lemma add_ack_extend l lo hi :
  ranges_wf 0 l -> ends_with l lo hi -> ends_with (add_pending_ack l hi) lo (hi + 1).
Proof.
  intros Hwf (pre & a & -> & Ha & Hlo).
  destruct (ins_extend_last pre 0 a hi Hwf) as [E1 E2].
  rewrite AcksP.add_pending_ack_ins, E1, E2.
  destruct (pre ++ [(a, hi)]) eqn:E; [destruct pre; discriminate|].
  exists pre, a. split; [reflexivity|lia].
Qed.

(* a sequence number above everything acknowledged so far *)
Lemma ins_fresh_last : forall l lo0 s,
  ranges_wf lo0 l -> (forall x, in_ranges x l -> x < s) ->
  exists pre a, AcksP.ins s l = pre ++ [(a, s + 1)] /\ a <= s.
Proof.
  induction l as [|[a b] t IH]; intros lo0 s Hwf Hlt; cbn [AcksP.ins].
  - exists [], s. split; [reflexivity|lia].
  - cbn [ranges_wf] in Hwf. destruct Hwf as (H1 & H2 & H3).
    assert (Hb : b <= s).
    { specialize (Hlt (b - 1)). cbn [in_ranges] in Hlt. assert (b - 1 < s) by (apply Hlt; left; lia). lia. }
    assert (E : (a <=? s) && (s <? b) = false) by (destruct (N.leb_spec a s), (N.ltb_spec s b); cbn [andb]; lia).
    rewrite E. destruct (N.eqb_spec a (s + 1)); [lia|].
    destruct (N.eqb_spec b s) as [->|Hne].
    + destruct t as [|[a2 b2] t2].
      * exists [], a. split; [reflexivity|lia].
      * exfalso. cbn [ranges_wf] in H3. destruct H3 as (A1 & A2 & _).
        specialize (Hlt a2). cbn [in_ranges] in Hlt. assert (a2 < s) by (apply Hlt; right; left; lia). lia.
    + destruct (N.ltb_spec (s + 1) a); [lia|].
      destruct (IH (b + 1) s H3) as (pre & a0 & E0 & Ha0).
      { intros x Hx. apply Hlt. cbn [in_ranges]. now right. }
      exists ((a, b) :: pre), a0. rewrite E0. split; [reflexivity|exact Ha0].
Qed.

Lemma tl_snoc {A} (pre : list A) x : 2 <= len (pre ++ [x]) -> exists pre', tl (pre ++ [x]) = pre' ++ [x].
Proof.
  destruct pre as [|y pre]; cbn [app tl].
  - rewrite AcksP.len_cons, AcksP.len_nil. lia.
  - intros _. now exists pre.
Qed.

Lemma add_ack_fresh l s :
  ranges_wf 0 l -> (forall x, in_ranges x l -> x < s) -> ends_with (add_pending_ack l s) s (s + 1).
Proof.
  intros Hwf Hlt. destruct (ins_fresh_last l 0 s Hwf Hlt) as (pre & a & E & Ha).
  destruct (AcksP.add_pending_ack_cases l s) as [E'|(_ & _ & Hlen & E')]; rewrite E', E.
  - exists pre, a. split; [reflexivity|lia].
  - rewrite E in Hlen. pose proof AcksP.MAX_ACK_RANGES_pos.
    destruct (tl_snoc pre (a, s + 1)) as (pre' & ->); [lia|].
    exists pre', a. split; [reflexivity|lia].
Qed.

Lemma ends_with_in l lo hi x : ends_with l lo hi -> lo <= x < hi -> in_ranges x l.
Proof.
  intros (pre & a & -> & Ha & _) Hx. apply AcksP.in_ranges_app. right. cbn [in_ranges]. left. lia.
Qed.

(* ================================================================== *)
(* 2. the parts still to be acknowledged *)

Definition cpart := (N * (N * option N))%type.      (* channel, (message id, part) *)

Lemma cpart_eq_dec (x y : cpart) : {x = y} + {x <> y}.
Proof. repeat decide equality. Defined.

(* part p of message id of channel ch is waiting for its acknowledgement *)
Definition pend (c : conn) (x : cpart) : Prop :=
  let '(ch, (id, p)) := x in
  exists s, sm_find ch (c_sr c) = Some s /\ packed s id p = Some false.

Definition idxs_false (acked : list bool) : list N :=
  filter (fun i => negb (nth (N.to_nat i) acked true)) (iota (len acked)).

Definition parts_left (u : unacked) : list (option N) :=
  match u with
  | USmall _ _ => [None]
  | USliced _ _ _ _ acked _ => map Some (idxs_false acked)
  end.

Definition sr_parts (s : send_rel) : list (N * option N) :=
  flat_map (fun iu => map (pair (fst iu)) (parts_left (snd iu))) (sr_unacked s).

Definition pending_list (c : conn) : list cpart :=
  flat_map (fun e => map (pair (fst e)) (sr_parts (snd e))) (c_sr c).

Lemma nth_opt_nth (l : list bool) i b : nth_opt l i = Some b -> nth i l true = b.
Proof.
  revert i. induction l as [|x l IH]; intros [|i]; cbn [nth_opt nth]; try discriminate; [congruence|auto].
Qed.

Lemma nth_opt_nth_iff (l : list bool) i : nth_opt l i = Some false <-> ((i < length l)%nat /\ nth i l true = false).
Proof.
  revert i. induction l as [|x l IH]; intros [|i]; cbn [nth_opt nth length]; try (split; [discriminate|intros [? ?]; lia || discriminate]).
  - split; [intros [= ->]; split; [lia|reflexivity]|intros [_ ->]; reflexivity].
  - rewrite IH. split; intros [? ?]; split; auto; lia.
Qed.

Lemma in_parts_left u p : In p (parts_left u) <-> part_acked u p = Some false.
Proof.
  destruct u as [m l|m num na nx ak ls]; cbn [parts_left part_acked].
  - destruct p; cbn [In]; split; intros H; try discriminate; auto; destruct H as [H|[]]; discriminate.
  - destruct p as [i|].
    + rewrite in_map_iff. unfold idxs_false. split.
      * intros (j & [= ->] & Hj). apply filter_In in Hj. destruct Hj as [Hj Hn]. apply in_iota in Hj.
        apply nth_opt_nth_iff. unfold len in Hj. split; [lia|]. now apply negb_true_iff in Hn.
      * intros H. apply nth_opt_nth_iff in H. destruct H as [H1 H2]. exists i. split; [reflexivity|].
        apply filter_In. split; [apply in_iota; unfold len; lia|]. now rewrite H2.
    + split; [|discriminate]. intros H. apply in_map_iff in H. destruct H as (j & Hj & _). discriminate.
Qed.

Lemma NoDup_map_pair {A B} (a : A) (l : list B) : NoDup l -> NoDup (map (pair a) l).
Proof. intros H. apply SendRelP.NoDup_map_inj; [|exact H]. intros x y E. now inversion E. Qed.

Lemma NoDup_filter {A} (f : A -> bool) l : NoDup l -> NoDup (filter f l).
Proof.
  induction 1 as [|x l Hx _ IH]; cbn [filter]; [constructor|].
  destruct (f x); [constructor; [|exact IH]|exact IH]. intros H. apply filter_In in H. tauto.
Qed.

Lemma NoDup_parts_left u : NoDup (parts_left u).
Proof.
  destruct u; cbn [parts_left].
  - constructor; [intros []|constructor].
  - apply SendRelP.NoDup_map_inj; [intros x y E; now inversion E|]. apply NoDup_filter, NoDup_iota.
Qed.

(* flat_map over a list with distinct keys, each image tagged with its key *)
Lemma NoDup_flat_map_keys {V B} (f : V -> list B) (m : list (N * V)) :
  NoDup (map fst m) -> (forall k v, In (k, v) m -> NoDup (f v)) ->
  NoDup (flat_map (fun e => map (pair (fst e)) (f (snd e))) m).
Proof.
  induction m as [|[k v] t IH]; cbn [map fst flat_map snd]; intros Hnd Hf; [constructor|].
  inversion Hnd as [|? ? Hk Hnd']; subst.
  apply SendRelP.NoDup_app_intro.
  - apply NoDup_map_pair. eapply Hf. now left.
  - apply IH; [exact Hnd'|]. intros k0 v0 Hin. eapply Hf. right. exact Hin.
  - intros x Hx Hx'. apply in_map_iff in Hx. destruct Hx as (b & <- & _).
    apply in_flat_map in Hx'. destruct Hx' as ([k' v'] & Hin & Hb). cbn [fst snd] in Hb.
    apply in_map_iff in Hb. destruct Hb as (b' & Eb & _). inversion Eb; subst.
    apply Hk. apply in_map_iff. exists (k, v'). auto.
Qed.

Lemma in_flat_map_keys {V B} (f : V -> list B) (m : list (N * V)) k b :
  In (k, b) (flat_map (fun e => map (pair (fst e)) (f (snd e))) m) <-> exists v, In (k, v) m /\ In b (f v).
Proof.
  rewrite in_flat_map. split.
  - intros ([k' v] & Hin & Hb). cbn [fst snd] in Hb. apply in_map_iff in Hb.
    destruct Hb as (b' & Eb & Hb'). inversion Eb; subst. eauto.
  - intros (v & Hin & Hb). exists (k, v). split; [exact Hin|]. cbn [fst snd]. apply in_map_iff. eauto.
Qed.

Lemma in_sr_parts now s id p : sr_inv now s -> In (id, p) (sr_parts s) <-> packed s id p = Some false.
Proof.
  intros (H1 & _). unfold sr_parts, packed. rewrite (in_flat_map_keys parts_left). split.
  - intros (u & Hin & Hp). rewrite (SMapSendP.sm_find_in _ _ _ _ H1 Hin). now apply in_parts_left.
  - destruct (sm_find id (sr_unacked s)) as [u|] eqn:E; [|discriminate].
    intros Hp. exists u. split; [now apply SMapSendP.sm_find_some_in|now apply in_parts_left].
Qed.

Lemma NoDup_sr_parts now s : sr_inv now s -> NoDup (sr_parts s).
Proof.
  intros (H1 & _). apply (NoDup_flat_map_keys parts_left).
  - eapply SMapSendP.keys_asc_nodup. exact H1.
  - intros k v _. apply NoDup_parts_left.
Qed.

Lemma in_pending_list c x : conn_inv c -> In x (pending_list c) <-> pend c x.
Proof.
  intros Hi. destruct x as [ch [id p]]. unfold pending_list, pend.
  rewrite (in_flat_map_keys sr_parts). split.
  - intros (s & Hin & Hp). pose proof (sm_in_find _ _ _ (ci_sr_sorted c Hi) Hin) as Hf.
    exists s. split; [exact Hf|]. destruct (inv_find_sr _ _ _ Hi Hf) as [Hsi _].
    now apply (in_sr_parts (c_now c)).
  - intros (s & Hf & Hp). exists s. split; [now apply sm_find_in|].
    destruct (inv_find_sr _ _ _ Hi Hf) as [Hsi _]. now apply (in_sr_parts (c_now c)).
Qed.

Lemma NoDup_pending_list c : conn_inv c -> NoDup (pending_list c).
Proof.
  intros Hi. unfold pending_list.
  apply (NoDup_flat_map_keys sr_parts).
  - apply asc_NoDup. exact (ci_sr_sorted c Hi).
  - intros k v Hin. pose proof (sm_in_find _ _ _ (ci_sr_sorted c Hi) Hin) as Hf.
    destruct (inv_find_sr _ _ _ Hi Hf) as [Hsi _]. eapply NoDup_sr_parts; eauto.
Qed.

(* the explicit measure of Spec/RLiveSpec.v is the length of that list *)
Lemma filter_iota_shift (f : N -> bool) n :
  length (filter f (iota (n + 1))) = ((if f 0%N then 1 else 0) + length (filter (fun i => f (i + 1)%N) (iota n)))%nat.
Proof.
  unfold iota. replace (N.to_nat (n + 1)) with (S (N.to_nat n)) by lia.
  cbn [seq map filter]. change (N.of_nat 0) with 0.
  rewrite <- seq_shift, map_map.
  assert (E : forall l, length (filter f (map (fun x => N.of_nat (S x)) l)) =
                        length (filter (fun i => f (i + 1)) (map N.of_nat l))).
  { induction l as [|x l IH]; cbn [map filter]; [reflexivity|].
    replace (N.of_nat (S x)) with (N.of_nat x + 1) by lia.
    destruct (f (N.of_nat x + 1)); cbn [length]; now rewrite IH. }
  rewrite <- E. destruct (f 0); cbn [length]; lia.
Qed.

Lemma len_idxs_false acked : len (idxs_false acked) = len (filter negb acked).
Proof.
  unfold idxs_false, len. f_equal.
  induction acked as [|b t IH]; [reflexivity|].
  change (N.of_nat (length (b :: t))) with (len (b :: t)). rewrite AcksP.len_cons.
  rewrite filter_iota_shift.
  assert (E : forall l, filter (fun i => negb (nth (N.to_nat (i + 1)) (b :: t) true)) l =
                        filter (fun i => negb (nth (N.to_nat i) t true)) l).
  { intros l. apply filter_ext. intros i. replace (N.to_nat (i + 1)) with (S (N.to_nat i)) by lia. reflexivity. }
  rewrite E. unfold len in IH |- *. rewrite IH. change (N.to_nat 0) with 0%nat. cbn [nth filter].
  destruct b; cbn [negb length]; lia.
Qed.

Lemma len_parts_left u : len (parts_left u) = unacked_left u.
Proof.
  destruct u; cbn [parts_left unacked_left]; [reflexivity|].
  rewrite SMapSendP.len_map. apply len_idxs_false.
Qed.

Lemma len_flat_map {A B} (f : A -> list B) l : len (flat_map f l) = sum (map (fun x => len (f x)) l).
Proof.
  induction l as [|x l IH]; cbn [flat_map map]; [reflexivity|].
  rewrite AcksP.len_app, SMapP.sum_cons, IH. reflexivity.
Qed.

Lemma len_sr_parts s : len (sr_parts s) = sr_outstanding s.
Proof.
  unfold sr_parts, sr_outstanding. rewrite len_flat_map. f_equal. apply map_ext.
  intros [id u]. cbn [fst snd]. rewrite SMapSendP.len_map. apply len_parts_left.
Qed.

Lemma len_pending_list c : len (pending_list c) = conn_outstanding c.
Proof.
  unfold pending_list, conn_outstanding. rewrite len_flat_map. f_equal. apply map_ext.
  intros [ch s]. cbn [fst snd]. rewrite SMapSendP.len_map. apply len_sr_parts.
Qed.

(* counting: what is left is among what was there, and everything in [gone] has gone *)
Lemma NoDup_incl_minus {A} (eq_dec : forall x y : A, {x = y} + {x <> y}) (l l' gone : list A) :
  NoDup l' -> NoDup gone -> incl gone l ->
  (forall x, In x l' -> In x l /\ ~ In x gone) ->
  (length l' + length gone <= length l)%nat.
Proof.
  intros Hl' Hg Hincl H.
  assert (Hnd : NoDup (l' ++ gone)).
  { apply SendRelP.NoDup_app_intro; auto. intros x Hx Hx'. destruct (H x Hx) as [_ Hn]. exact (Hn Hx'). }
  rewrite <- app_length. apply NoDup_incl_length; [exact Hnd|].
  intros x Hx. apply in_app_or in Hx. destruct Hx as [Hx|Hx]; [apply H, Hx|apply Hincl, Hx].
Qed.

(* ================================================================== *)
(* 3. the channel send order lists every send channel exactly once *)

Definition order_inv (c : conn) : Prop :=
  NoDup (c_order c) /\
  (forall ch, In (true, ch) (c_order c) <-> sm_mem ch (c_sr c) = true) /\
  (forall ch, In (false, ch) (c_order c) <-> sm_mem ch (c_su c) = true).

Lemma build_send_order cfgs : forall su sr ord su' sr' ord',
  build_send cfgs su sr ord = Ok (su', sr', ord') ->
  NoDup ord -> (forall ch, In (true, ch) ord <-> sm_mem ch sr = true) ->
  (forall ch, In (false, ch) ord <-> sm_mem ch su = true) ->
  NoDup ord' /\ (forall ch, In (true, ch) ord' <-> sm_mem ch sr' = true) /\
  (forall ch, In (false, ch) ord' <-> sm_mem ch su' = true).
Proof.
  induction cfgs as [|cfg t IH]; intros su sr ord su' sr' ord' E Hnd Hr Hu; cbn [build_send] in E.
  - injection E as <- <- <-. auto.
  - assert (Hrel : forall rt, sm_mem (cc_id cfg) sr = false ->
      build_send t su (sm_insert (cc_id cfg) (send_rel_new (cc_id cfg) rt (cc_max cfg)) sr)
                 (ord ++ [(true, cc_id cfg)]) = Ok (su', sr', ord') ->
      NoDup ord' /\ (forall ch, In (true, ch) ord' <-> sm_mem ch sr' = true) /\
      (forall ch, In (false, ch) ord' <-> sm_mem ch su' = true)).
    { intros rt Hm E'. eapply IH; [exact E'| | |].
      - apply RecvRelP.NoDup_snoc; [exact Hnd|]. intros Hin. apply Hr in Hin. congruence.
      - intros ch. rewrite in_app_iff, sm_mem_insert, Hr. cbn [In].
        destruct (N.eqb_spec ch (cc_id cfg)) as [->|Hne]; cbn [orb]; [tauto|].
        split; [intros [H|[H|[]]]; [exact H|inversion H; congruence]|tauto].
      - intros ch. rewrite in_app_iff, Hu. cbn [In]. split; [intros [H|[H|[]]]; [exact H|discriminate]|tauto]. }
    destruct (cc_type cfg) as [|rt|rt].
    + destruct (sm_mem (cc_id cfg) su) eqn:Hm; [discriminate|]. eapply IH; [exact E| | |].
      * apply RecvRelP.NoDup_snoc; [exact Hnd|]. intros Hin. apply Hu in Hin. congruence.
      * intros ch. rewrite in_app_iff, Hr. cbn [In]. split; [intros [H|[H|[]]]; [exact H|discriminate]|tauto].
      * intros ch. rewrite in_app_iff, sm_mem_insert, Hu. cbn [In].
        destruct (N.eqb_spec ch (cc_id cfg)) as [->|Hne]; cbn [orb]; [tauto|].
        split; [intros [H|[H|[]]]; [exact H|inversion H; congruence]|tauto].
    + destruct (sm_mem (cc_id cfg) sr) eqn:Hm; [discriminate|]. eapply Hrel; eauto.
    + destruct (sm_mem (cc_id cfg) sr) eqn:Hm; [discriminate|]. eapply Hrel; eauto.
Qed.

Lemma conn_new_order budget scfg rcfg c : conn_new budget scfg rcfg = Ok c -> order_inv c.
Proof.
  unfold conn_new. intros E.
  destruct (build_send scfg [] [] []) as [[[su sr] ord]| |] eqn:Es; cbn [bind] in E; try discriminate.
  destruct (build_recv rcfg [] []) as [[ru rr]| |]; cbn [bind] in E; try discriminate.
  injection E as <-. unfold order_inv. cbn [c_order c_sr c_su].
  eapply build_send_order; [exact Es|constructor| |]; intros ch; cbn [In]; split; (contradiction || discriminate).
Qed.

Lemma order_inv_keep c c' : c_order c' = c_order c -> same_channels c c' -> order_inv c -> order_inv c'.
Proof.
  intros Eo Hsc (H1 & H2 & H3). unfold order_inv. rewrite Eo. split; [exact H1|].
  split; intros ch; destruct (Hsc ch) as (A1 & A2 & _); [rewrite A1|rewrite A2]; auto.
Qed.

Lemma disconnect_with_order c r : c_order (disconnect_with c r) = c_order c.
Proof. unfold disconnect_with. destruct (is_disconnected c); reflexivity. Qed.

Lemma cstep_order c o c' out : conn_inv c -> is_process o = false -> cstep c o = Ok (c', out) -> c_order c' = c_order c.
Proof.
  intros Hi Hnp E. destruct o as [ch m|ch|dt|b| | | | |]; try discriminate; cbn [cstep] in E.
  - destruct (send_message c ch m) as [c1| |] eqn:E1; cbn [bind] in E; try discriminate. injection E as <- _.
    unfold send_message in E1. destruct (is_disconnected c); [now injection E1 as <-|].
    destruct (sm_find ch (c_sr c)).
    + destruct (sr_send s m); try discriminate; injection E1 as <-; [reflexivity|apply disconnect_with_order].
    + destruct (sm_find ch (c_su c)); [|discriminate]. now injection E1 as <-.
  - destruct (receive_message c ch) as [[c1 mo]| |] eqn:E1; cbn [bind] in E; try discriminate. injection E as <- _.
    unfold receive_message in E1. destruct (is_disconnected c); [now injection E1 as <- _|].
    destruct (sm_find ch (c_rr c)).
    + destruct (rr_receive r) as [[r' m']| |]; try discriminate. now injection E1 as <- _.
    + destruct (sm_find ch (c_ru c)); [|discriminate].
      destruct (ru_receive r) as [[r' m']| |]; try discriminate. now injection E1 as <- _.
  - destruct (update c dt) as [c1| |] eqn:E1; cbn [bind] in E; try discriminate. injection E as <- _.
    destruct (update_unfold c dt c1 E1) as (ru1 & sent1 & _ & _ & ->). reflexivity.
  - destruct (get_packets_to_send c) as [[c1 p]| |] eqn:E1; cbn [bind] in E; try discriminate. injection E as <- _.
    destruct (flush_shape c c1 p Hi E1) as [(_ & -> & _)|(_ & c2 & av & pk & Hrel & -> & _)]; [reflexivity|].
    destruct (gather_facts _ _ _ _ _ _ Hrel Hi) as (_ & _ & _ & _ & Hfr & _).
    destruct Hfr as (_ & _ & _ & F & _).
    destruct (flush_state_frame c2 pk) as (_ & _ & _ & _ & _ & _ & G & _). congruence.
  - injection E as <- _. unfold set_connected. destruct (is_disconnected c); reflexivity.
  - injection E as <- _. unfold set_connecting. destruct (is_disconnected c); reflexivity.
  - injection E as <- _. apply disconnect_with_order.
  - injection E as <- _. apply disconnect_with_order.
Qed.

Lemma process_packet_order c bytes c' :
  conn_inv c -> (forall p, from_bytes bytes = Ok p -> packet_wf p) ->
  process_packet c bytes = Ok c' -> c_order c' = c_order c.
Proof.
  intros Hi Hwf E.
  destruct (process_packet_cases c bytes) as [(_ & E0)|[(_ & e & _ & E0)|(_ & p & Hp & E0)]]; rewrite E0 in E.
  - now injection E as <-.
  - injection E as <-. apply disconnect_with_order.
  - specialize (Hwf p Hp).
    set (c1 := with_acks c (add_pending_ack (c_acks c) (packet_seq p))) in *.
    assert (Hi1 : conn_inv c1) by (apply inv_add_pending_ack; [exact Hi|now apply packet_wf_seq]).
    destruct (is_ack p) eqn:Ha.
    + destruct p as [| | | |sq rs]; try discriminate.
      destruct (process_ack_spec c1 sq rs Hi1 (packet_wf_ack_ranges _ _ Hwf)) as (c2 & l & E2 & _ & Hfr & _).
      rewrite E2 in E. injection E as <-. destruct Hfr as (_ & _ & F & _). exact F.
    + destruct (process_data_spec c1 p Hi1 Hwf Ha) as (c2 & E2 & _ & Hfr).
      rewrite E2 in E. injection E as <-. destruct Hfr as (_ & _ & F & _). exact F.
Qed.

(* ================================================================== *)
(* 4. progress of a reliable receive channel, without the event history *)

Definition ev_done (r : recv_rel) (e : rev) : Prop :=
  match e with
  | RSmall id => rr_seen r id = true
  | RSlice id idx => rr_seen r id = true \/ exists c, sm_find id (rr_slices r) = Some c /\ SliceP.has c idx
  | RRecv => True
  end.

Definition ev_live (sent : list (list N)) (e : rev) : Prop :=
  match e with RSmall id | RSlice id _ => msg_at sent id <> None | RRecv => True end.

Lemma ev_done_prog sent r e : ev_done r e -> RecvRelP.ev_prog sent r e.
Proof. destruct e; cbn [ev_done RecvRelP.ev_prog]; auto. Qed.

Lemma ev_prog_done sent r e : ev_live sent e -> RecvRelP.ev_prog sent r e -> ev_done r e.
Proof. destruct e; cbn [ev_done ev_live RecvRelP.ev_prog]; auto. Qed.

Lemma rev_ok_live sent e : rev_ok sent e -> ev_live sent e.
Proof.
  destruct e; cbn [rev_ok ev_live]; auto.
  - intros (m & -> & _). discriminate.
  - intros (m & -> & _). discriminate.
Qed.

(* what has arrived stays arrived, and every executed event has arrived *)
Lemma exec_keeps_done sent evs r outs r' outs' :
  Forall (rev_ok sent) evs -> RecvRelP.hcore sent r outs ->
  rr_exec sent r evs outs = (r', outs', false) ->
  RecvRelP.hcore sent r' outs' /\
  (forall e, ev_live sent e -> ev_done r e -> ev_done r' e) /\
  (forall e, In e evs -> ev_done r' e).
Proof.
  intros F H E. split; [|split].
  - destruct (RecvRelP.exec_inv sent evs r outs [] r' outs' false F H (Forall_nil _) E) as (A & _). exact A.
  - intros e Hl Hd.
    assert (P : RecvRelP.hprog sent [e] r) by (constructor; [now apply ev_done_prog|constructor]).
    destruct (RecvRelP.exec_inv sent evs r outs [e] r' outs' false F H P E) as (_ & _ & B & _).
    specialize (B eq_refl). unfold RecvRelP.hprog in B. cbn [app] in B. inversion B; subst.
    now apply (ev_prog_done sent).
  - intros e Hin.
    destruct (RecvRelP.exec_inv sent evs r outs [] r' outs' false F H (Forall_nil _) E) as (_ & _ & B & _).
    specialize (B eq_refl). unfold RecvRelP.hprog in B. cbn [app] in B. rewrite Forall_forall in B.
    apply (ev_prog_done sent); [|now apply B]. apply rev_ok_live. rewrite Forall_forall in F. now apply F.
Qed.

(* a reachable receive channel is the state of an honest execution *)
Lemma rr_refines_hcore sent got o r : rr_refines sent got o r ->
  exists outs, RecvRelP.hcore sent r outs /\ map snd outs = got /\ RecvRelP.mode r = o.
Proof.
  intros (max & evs & outs & F & E & G).
  destruct (RecvRelP.exec_from_init sent max o evs r outs false F E) as (H & M & _).
  exists outs. auto.
Qed.

(* every slice of a message has arrived: the message is complete (it cannot sit in a constructor) *)
Lemma all_slices_seen sent r outs id m :
  RecvRelP.hcore sent r outs -> msg_at sent id = Some m -> SLICE_SIZE < len m ->
  (forall idx, idx < num_slices_of m -> ev_done r (RSlice id idx)) -> rr_seen r id = true.
Proof.
  intros H Hat Hl Hall. destruct (rr_seen r id) eqn:Es; [reflexivity|exfalso].
  pose proof (SliceP.num_bounds m Hl) as (_ & _ & B2).
  assert (Hc : exists c, sm_find id (rr_slices r) = Some c).
  { destruct (Hall 0 ltac:(lia)) as [?|(c & Hf & _)]; [congruence|eauto]. }
  destruct Hc as [c Hf].
  destruct (RecvRelP.hc_ctors _ _ _ H id c Hf) as (_ & m' & Hat' & _ & [On _]).
  rewrite Hat in Hat'. injection Hat' as <-.
  pose proof (RecvRelP.hc_inv _ _ _ H) as (_ & _ & I3 & _).
  pose proof (Forall_sm_find _ _ _ _ I3 Hf) as W. cbn [snd] in W.
  apply (SliceP.wf_not_full c W). rewrite On. intros i Hi.
  destruct (Hall i Hi) as [?|(c' & Hf' & Hh)]; [congruence|]. rewrite Hf in Hf'. injection Hf' as <-. exact Hh.
Qed.
