(* DisconnectP.v - "disconnection is final": once a connection is Disconnected r, every public
   call leaves it Disconnected with the same first reason r, emits no packet and yields no message. *)
From RenetV Require Import Base Consts Varint Packet Channels Conn Server ConnSpec.
Require Import Lia ZifyBool ZifyN.
Open Scope N_scope.
Arguments N.add : simpl never.
Arguments N.sub : simpl never.
Arguments N.mul : simpl never.
Arguments N.eqb : simpl never.
Arguments N.ltb : simpl never.
Arguments N.leb : simpl never.

(* ------------------------------------------------------------------ *)
(* status bookkeeping *)

Lemma is_disconnected_status : forall c, is_disconnected c = true <-> exists r, c_status c = Disconnected r.
Proof.
  intros c. unfold is_disconnected. destruct (c_status c); split; intros H;
    try discriminate; try reflexivity; eauto; destruct H as [r H]; discriminate.
Qed.

Lemma status_is_disconnected : forall c r, c_status c = Disconnected r -> is_disconnected c = true.
Proof. intros c r H. unfold is_disconnected. rewrite H. reflexivity. Qed.

Lemma status_with_sr : forall c x, c_status (with_sr c x) = c_status c. Proof. reflexivity. Qed.
Lemma status_with_su : forall c x, c_status (with_su c x) = c_status c. Proof. reflexivity. Qed.
Lemma status_with_rr : forall c x, c_status (with_rr c x) = c_status c. Proof. reflexivity. Qed.
Lemma status_with_ru : forall c x, c_status (with_ru c x) = c_status c. Proof. reflexivity. Qed.
Lemma status_with_acks : forall c x, c_status (with_acks c x) = c_status c. Proof. reflexivity. Qed.
Lemma status_with_sent : forall c x, c_status (with_sent c x) = c_status c. Proof. reflexivity. Qed.
Lemma status_with_seq : forall c x, c_status (with_seq c x) = c_status c. Proof. reflexivity. Qed.
Lemma status_with_now : forall c x, c_status (with_now c x) = c_status c. Proof. reflexivity. Qed.
Lemma status_set_status : forall c s, c_status (set_status c s) = s. Proof. reflexivity. Qed.

(* disconnect_with either does nothing (already disconnected) or installs the given reason *)
Lemma disconnect_with_status : forall c r,
    (is_disconnected c = true /\ disconnect_with c r = c) \/
    (is_disconnected c = false /\ c_status (disconnect_with c r) = Disconnected r).
Proof.
  intros c r. unfold disconnect_with. destruct (is_disconnected c) eqn:E.
  - left. auto.
  - right. auto.
Qed.

Lemma disconnect_with_is_disconnected : forall c r, is_disconnected (disconnect_with c r) = true.
Proof.
  intros c r. unfold disconnect_with. destruct (is_disconnected c) eqn:E; [exact E | reflexivity].
Qed.

(* ------------------------------------------------------------------ *)
(* 1. per-call lemmas for a disconnected connection *)

Lemma send_message_disconnected_noop : forall c ch m,
    is_disconnected c = true -> send_message c ch m = Ok c.
Proof. intros c ch m H. unfold send_message. rewrite H. reflexivity. Qed.

Lemma receive_message_disconnected_noop : forall c ch,
    is_disconnected c = true -> receive_message c ch = Ok (c, None).
Proof. intros c ch H. unfold receive_message. rewrite H. reflexivity. Qed.

Lemma process_packet_disconnected_noop : forall c b,
    is_disconnected c = true -> process_packet c b = Ok c.
Proof. intros c b H. unfold process_packet. rewrite H. reflexivity. Qed.

Lemma get_packets_to_send_disconnected_noop : forall c,
    is_disconnected c = true -> get_packets_to_send c = Ok (c, []).
Proof. intros c H. unfold get_packets_to_send. rewrite H. reflexivity. Qed.

Lemma set_connected_disconnected_noop : forall c, is_disconnected c = true -> set_connected c = c.
Proof. intros c H. unfold set_connected. rewrite H. reflexivity. Qed.

Lemma set_connecting_disconnected_noop : forall c, is_disconnected c = true -> set_connecting c = c.
Proof. intros c H. unfold set_connecting. rewrite H. reflexivity. Qed.

Lemma disconnect_with_disconnected_noop : forall c r, is_disconnected c = true -> disconnect_with c r = c.
Proof. intros c r H. unfold disconnect_with. rewrite H. reflexivity. Qed.

Lemma disconnect_disconnected_noop : forall c, is_disconnected c = true -> disconnect c = c.
Proof. intros c H. unfold disconnect. apply disconnect_with_disconnected_noop. exact H. Qed.

Lemma disconnect_transport_disconnected_noop : forall c, is_disconnected c = true -> disconnect_transport c = c.
Proof. intros c H. unfold disconnect_transport. apply disconnect_with_disconnected_noop. exact H. Qed.

(* update never touches the status (disconnected or not); note that it still advances the clock
   and ages the receive/sent tables of a disconnected connection *)
Lemma update_status : forall c dt c', update c dt = Ok c' -> c_status c' = c_status c.
Proof.
  intros c dt c'. unfold update.
  destruct (discard_all (c_now c + dt) (c_ru c)) as [ru|e|p] eqn:E1; cbn [bind]; try discriminate.
  destruct (drop_lost (c_now c + dt) (c_sent c)) as [sent|e|p] eqn:E2; cbn [bind]; try discriminate.
  intros H. injection H as <-. reflexivity.
Qed.

(* ------------------------------------------------------------------ *)
(* 2. one step never changes a Disconnected status *)

Lemma cstep_status : forall c o c' out,
    cstep c o = Ok (c', out) -> forall r, c_status c = Disconnected r -> c_status c' = Disconnected r.
Proof.
  intros c o c' out H r Hs.
  pose proof (status_is_disconnected c r Hs) as Hd.
  destruct o; cbn [cstep] in H.
  - rewrite send_message_disconnected_noop in H by exact Hd. cbn [bind] in H. congruence.
  - rewrite receive_message_disconnected_noop in H by exact Hd. cbn [bind] in H. congruence.
  - destruct (update c dt) as [c1|e|p] eqn:E; cbn [bind] in H; try discriminate.
    injection H as <- <-. rewrite (update_status _ _ _ E). exact Hs.
  - rewrite process_packet_disconnected_noop in H by exact Hd. cbn [bind] in H. congruence.
  - rewrite get_packets_to_send_disconnected_noop in H by exact Hd. cbn [bind] in H. congruence.
  - rewrite set_connected_disconnected_noop in H by exact Hd. congruence.
  - rewrite set_connecting_disconnected_noop in H by exact Hd. congruence.
  - rewrite disconnect_disconnected_noop in H by exact Hd. congruence.
  - rewrite disconnect_transport_disconnected_noop in H by exact Hd. congruence.
Qed.

(* and its output is quiet: no packets, no message *)
Lemma cstep_quiet : forall c o c' out,
    cstep c o = Ok (c', out) -> is_disconnected c = true -> quiet out.
Proof.
  intros c o c' out H Hd.
  destruct o; cbn [cstep] in H.
  - rewrite send_message_disconnected_noop in H by exact Hd. cbn [bind] in H.
    injection H as <- <-. exact I.
  - rewrite receive_message_disconnected_noop in H by exact Hd. cbn [bind] in H.
    injection H as <- <-. reflexivity.
  - destruct (update c dt) as [c1|e|p] eqn:E; cbn [bind] in H; try discriminate.
    injection H as <- <-. exact I.
  - rewrite process_packet_disconnected_noop in H by exact Hd. cbn [bind] in H.
    injection H as <- <-. exact I.
  - rewrite get_packets_to_send_disconnected_noop in H by exact Hd. cbn [bind] in H.
    injection H as <- <-. reflexivity.
  - injection H as <- <-. exact I.
  - injection H as <- <-. exact I.
  - injection H as <- <-. exact I.
  - injection H as <- <-. exact I.
Qed.

(* every step other than CUpdate leaves a disconnected connection completely unchanged *)
Lemma cstep_disconnected_same : forall c o c' out,
    cstep c o = Ok (c', out) -> is_disconnected c = true ->
    (forall dt, o <> CUpdate dt) -> c' = c.
Proof.
  intros c o c' out H Hd Hn.
  destruct o; cbn [cstep] in H.
  - rewrite send_message_disconnected_noop in H by exact Hd. cbn [bind] in H. congruence.
  - rewrite receive_message_disconnected_noop in H by exact Hd. cbn [bind] in H. congruence.
  - exfalso. eapply Hn. reflexivity.
  - rewrite process_packet_disconnected_noop in H by exact Hd. cbn [bind] in H. congruence.
  - rewrite get_packets_to_send_disconnected_noop in H by exact Hd. cbn [bind] in H. congruence.
  - rewrite set_connected_disconnected_noop in H by exact Hd. congruence.
  - rewrite set_connecting_disconnected_noop in H by exact Hd. congruence.
  - rewrite disconnect_disconnected_noop in H by exact Hd. congruence.
  - rewrite disconnect_transport_disconnected_noop in H by exact Hd. congruence.
Qed.

(* ------------------------------------------------------------------ *)
(* 3. absorbing *)

Lemma crun_cons : forall c o t r,
    crun c (o :: t) = Ok r ->
    exists c1 out c2 outs, cstep c o = Ok (c1, out) /\ crun c1 t = Ok (c2, outs) /\ r = (c2, out :: outs).
Proof.
  intros c o t r. cbn [crun].
  destruct (cstep c o) as [[c1 out]|e|p] eqn:E1; cbn [bind]; try discriminate.
  destruct (crun c1 t) as [[c2 outs]|e|p] eqn:E2; cbn [bind]; try discriminate.
  intros H. injection H as <-. exists c1, out, c2, outs. auto.
Qed.

Theorem disconnected_absorbing : forall c ops c' outs r,
    c_status c = Disconnected r -> crun c ops = Ok (c', outs) ->
    c_status c' = Disconnected r /\ Forall quiet outs.
Proof.
  intros c ops. revert c. induction ops as [|o t IH]; intros c c' outs r Hs H.
  - cbn [crun] in H. injection H as <- <-. split; [exact Hs | constructor].
  - apply crun_cons in H. destruct H as (c1 & out & c2 & outs' & H1 & H2 & E).
    injection E as -> ->.
    pose proof (cstep_status _ _ _ _ H1 r Hs) as Hs1.
    pose proof (cstep_quiet _ _ _ _ H1 (status_is_disconnected _ _ Hs)) as Hq.
    destruct (IH _ _ _ _ Hs1 H2) as [Hs2 Hqs].
    split; [exact Hs2 | constructor; assumption].
Qed.

(* ------------------------------------------------------------------ *)
(* 4. the first reason is kept *)

Corollary first_reason_kept : forall c ops1 ops2 c1 c2 o1 o2 r,
    crun c ops1 = Ok (c1, o1) -> c_status c1 = Disconnected r ->
    crun c1 ops2 = Ok (c2, o2) -> c_status c2 = Disconnected r.
Proof.
  intros c ops1 ops2 c1 c2 o1 o2 r _ Hs H2.
  exact (proj1 (disconnected_absorbing _ _ _ _ _ Hs H2)).
Qed.

Lemma disconnect_with_first : forall c r1 r2,
    c_status (disconnect_with (disconnect_with c r1) r2) = c_status (disconnect_with c r1).
Proof.
  intros c r1 r2.
  rewrite (disconnect_with_disconnected_noop (disconnect_with c r1) r2); [reflexivity|].
  apply disconnect_with_is_disconnected.
Qed.

(* stronger: the whole record, not only the status *)
Lemma disconnect_with_idem : forall c r1 r2,
    disconnect_with (disconnect_with c r1) r2 = disconnect_with c r1.
Proof.
  intros c r1 r2. apply disconnect_with_disconnected_noop. apply disconnect_with_is_disconnected.
Qed.

(* ------------------------------------------------------------------ *)
(* 5. the reasons a (possibly hostile) packet can cause *)

Definition packet_reason (r : reason) : Prop :=
  (exists e, r = RPacketDeserialization e) \/
  (exists ch, r = RReceivedInvalidChannelId ch) \/
  (exists ch e, r = RReceiveChannelError ch e).

Lemma disconnect_with_cases : forall c r c0,
    c_status c = c_status c0 ->
    c_status (disconnect_with c r) = c_status c0 \/ c_status (disconnect_with c r) = Disconnected r.
Proof.
  intros c r c0 E. destruct (disconnect_with_status c r) as [[_ H]|[_ H]].
  - left. rewrite H. exact E.
  - right. exact H.
Qed.

Lemma apply_ack_status : forall c s c', apply_ack c s = Ok c' -> c_status c' = c_status c.
Proof.
  intros c s c'. unfold apply_ack.
  destruct (sm_find s (c_sent c)) as [[at_ info]|] eqn:E; [|discriminate].
  destruct info as [|ch ids|ch id idx|largest].
  - intros H. injection H as <-. reflexivity.
  - destruct (sm_find ch (c_sr (with_sent c (sm_remove s (c_sent c))))) as [sr|] eqn:E2; [|discriminate].
    destruct (lift (ack_ids sr ids)) as [s'|e|p] eqn:E3; cbn [bind]; try discriminate.
    intros H. injection H as <-. reflexivity.
  - destruct (sm_find ch (c_sr (with_sent c (sm_remove s (c_sent c))))) as [sr|] eqn:E2; [|discriminate].
    destruct (lift (sr_ack_slice sr id idx)) as [s'|e|p] eqn:E3; cbn [bind]; try discriminate.
    intros H. injection H as <-. reflexivity.
  - intros H. injection H as <-. reflexivity.
Qed.

Lemma apply_acks_status : forall seqs c c', apply_acks c seqs = Ok c' -> c_status c' = c_status c.
Proof.
  induction seqs as [|s t IH]; intros c c'; cbn [apply_acks].
  - intros H. injection H as <-. reflexivity.
  - destruct (apply_ack c s) as [c1|e|p] eqn:E; cbn [bind]; try discriminate.
    intros H. rewrite (IH _ _ H). eapply apply_ack_status; eauto.
Qed.

Lemma process_parsed_reasons : forall c p c',
    process_parsed c p = Ok c' ->
    c_status c' = c_status c \/
    exists r, c_status c' = Disconnected r /\
              ((exists ch, r = RReceivedInvalidChannelId ch) \/ (exists ch e, r = RReceiveChannelError ch e)).
Proof.
  intros c p c'. unfold process_parsed.
  destruct p as [sq ch ms|sq ch ms|sq ch sl|sq ch sl|sq ranges].
  - destruct (sm_find ch (c_rr c)) as [r|] eqn:E.
    + destruct (process_rel_msgs r ms) as [r'|e|pp] eqn:E2; try discriminate.
      * intros H. injection H as <-. left. reflexivity.
      * intros H. injection H as <-.
        destruct (disconnect_with_cases c (RReceiveChannelError ch e) c eq_refl) as [H|H];
          [left; exact H | right; eauto 8].
    + intros H. injection H as <-.
      destruct (disconnect_with_cases c (RReceivedInvalidChannelId ch) c eq_refl) as [H|H];
        [left; exact H | right; eauto 8].
  - destruct (sm_find ch (c_ru c)) as [r|] eqn:E.
    + intros H. injection H as <-. left. reflexivity.
    + intros H. injection H as <-.
      destruct (disconnect_with_cases c (RReceivedInvalidChannelId ch) c eq_refl) as [H|H];
        [left; exact H | right; eauto 8].
  - destruct (sm_find ch (c_rr c)) as [r|] eqn:E.
    + destruct (rr_process_slice r sl) as [r'|e|pp] eqn:E2; try discriminate.
      * intros H. injection H as <-. left. reflexivity.
      * intros H. injection H as <-.
        destruct (disconnect_with_cases c (RReceiveChannelError ch e) c eq_refl) as [H|H];
          [left; exact H | right; eauto 8].
    + intros H. injection H as <-.
      destruct (disconnect_with_cases c (RReceivedInvalidChannelId ch) c eq_refl) as [H|H];
        [left; exact H | right; eauto 8].
  - destruct (sm_find ch (c_ru c)) as [r|] eqn:E.
    + destruct (ru_process_slice r sl (c_now c)) as [r'|e|pp] eqn:E2; try discriminate.
      * intros H. injection H as <-. left. reflexivity.
      * intros H. injection H as <-.
        destruct (disconnect_with_cases c (RReceiveChannelError ch e) c eq_refl) as [H|H];
          [left; exact H | right; eauto 8].
    + intros H. injection H as <-.
      destruct (disconnect_with_cases c (RReceivedInvalidChannelId ch) c eq_refl) as [H|H];
        [left; exact H | right; eauto 8].
  - destruct (collect_new_acks ranges (c_sent c)) as [na|e|pp] eqn:E; cbn [bind]; try discriminate.
    intros H. left. eapply apply_acks_status; eauto.
Qed.

Theorem process_packet_reasons : forall c b c',
    process_packet c b = Ok c' ->
    c_status c' = c_status c \/
    exists r, c_status c' = Disconnected r /\
              ((exists e, r = RPacketDeserialization e) \/
               (exists ch, r = RReceivedInvalidChannelId ch) \/
               (exists ch e, r = RReceiveChannelError ch e)).
Proof.
  intros c b c'. unfold process_packet.
  destruct (is_disconnected c) eqn:Hd.
  - intros H. injection H as <-. left. reflexivity.
  - destruct (from_bytes b) as [p|e|pp] eqn:E; try discriminate.
    + intros H. apply process_parsed_reasons in H. rewrite status_with_acks in H.
      destruct H as [H|(r & H1 & H2)]; [left; exact H | right].
      exists r. split; [exact H1 | right; exact H2].
    + intros H. injection H as <-.
      destruct (disconnect_with_cases c (RPacketDeserialization e) c eq_refl) as [H|H];
        [left; exact H | right; eauto 8].
Qed.

(* a packet never revives or re-labels: combined with item 1 *)
Corollary process_packet_keeps_reason : forall c b c' r,
    c_status c = Disconnected r -> process_packet c b = Ok c' -> c' = c.
Proof.
  intros c b c' r Hs H.
  rewrite process_packet_disconnected_noop in H by (eapply status_is_disconnected; eauto). congruence.
Qed.

(* ------------------------------------------------------------------ *)
(* non-vacuity: a connection that is disconnected by the application, then fed everything *)
Definition ex_cfg : list chan_config := [ {| cc_id := 0; cc_max := 10000; cc_type := TReliableOrdered 300 |} ].

Example absorbing_run :
  match conn_new 60000 ex_cfg ex_cfg with
  | Ok c =>
      match crun c [CSetConnected; CSend 0 [1;2;3]; CDisconnectTransport; CDisconnect; CSetConnected;
                    CSend 0 [4]; CProcess [9;9;9]; CRecv 0; CFlush; CUpdate 5] with
      | Ok (c', outs) => (c_status c', outs)
      | _ => (Connecting, [])
      end
  | _ => (Connecting, [])
  end
  = (Disconnected RTransport,
     [ONone; ONone; ONone; ONone; ONone; ONone; ONone; OMsg None; OPkts []; ONone]).
Proof. vm_compute. reflexivity. Qed.

(* update on a disconnected connection is NOT the identity: the clock still advances, so the
   per-call lemma for update can only speak about the status *)
Example update_not_identity_when_disconnected :
  match conn_new 60000 ex_cfg ex_cfg with
  | Ok c => match update (disconnect c) 5 with
            | Ok c' => (c_now (disconnect c), c_now c', c_status c')
            | _ => (0, 0, Connecting)
            end
  | _ => (0, 0, Connecting)
  end = (0, 5, Disconnected RDisconnectedByClient).
Proof. vm_compute. reflexivity. Qed.

Print Assumptions send_message_disconnected_noop.
Print Assumptions receive_message_disconnected_noop.
Print Assumptions process_packet_disconnected_noop.
Print Assumptions get_packets_to_send_disconnected_noop.
Print Assumptions set_connected_disconnected_noop.
Print Assumptions set_connecting_disconnected_noop.
Print Assumptions disconnect_disconnected_noop.
Print Assumptions disconnect_transport_disconnected_noop.
Print Assumptions disconnect_with_disconnected_noop.
Print Assumptions update_status.
Print Assumptions cstep_status.
Print Assumptions disconnected_absorbing.
Print Assumptions first_reason_kept.
Print Assumptions disconnect_with_first.
Print Assumptions process_packet_reasons.
