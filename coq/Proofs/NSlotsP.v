(* NSlotsP.v - list-level facts used by the renetcode server proofs:
   len, addr_eqb, distinct_by / NoDup, slots (find_slot_by, first_free, upd, some_list,
   count_some) and the pending association list (pend_find / pend_put / pend_remove). *)
From RenetV Require Import Base Consts Aead NPacket Token NServer.
From RenetV Require Import Spec.NetSpec.
From RenetV Require Import Proofs.AeadP.
Require Import Lia ZifyBool ZifyN ZifyNat.
Arguments N.add : simpl never.
Arguments N.sub : simpl never.
Arguments N.mul : simpl never.
Arguments N.div : simpl never.
Arguments N.modulo : simpl never.
Arguments N.eqb : simpl never.
Arguments N.ltb : simpl never.
Arguments N.leb : simpl never.
Open Scope N_scope.

(* ------------------------------------------------------------------ *)
(* len                                                                 *)
(* ------------------------------------------------------------------ *)
Lemma len_nil {A} : len (@nil A) = 0.
Proof. reflexivity. Qed.

Lemma len_cons {A} (x : A) l : len (x :: l) = 1 + len l.
Proof. unfold len. cbn [length]. lia. Qed.

Lemma len_app {A} (a b : list A) : len (a ++ b) = len a + len b.
Proof. unfold len. rewrite app_length. lia. Qed.

Lemma len_length {A} (a : list A) : N.to_nat (len a) = length a.
Proof. unfold len. apply Nat2N.id. Qed.

Lemma len_takeN_le {A} n (l : list A) : len (takeN n l) <= n.
Proof. unfold len, takeN. pose proof (firstn_le_length (N.to_nat n) l). lia. Qed.

Lemma len_takeN_le_len {A} n (l : list A) : len (takeN n l) <= len l.
Proof. unfold len, takeN. rewrite firstn_length. lia. Qed.

Lemma len_dropN {A} n (l : list A) : len (dropN n l) = len l - n.
Proof. unfold len, dropN. rewrite skipn_length. lia. Qed.

Lemma len_upd {A} (l : list A) i x : len (upd l i x) = len l.
Proof.
  unfold len. f_equal. revert i. induction l as [|y l IH]; intros [|i]; cbn [upd length]; auto.
Qed.

Lemma repeatN_length {A} (x : A) n : length (repeatN x n) = n.
Proof. induction n; cbn [repeatN length]; auto. Qed.

Lemma len_repeatN {A} (x : A) n : len (repeatN x n) = N.of_nat n.
Proof. unfold len. rewrite repeatN_length. reflexivity. Qed.

Lemma le_bytes_length n v : length (le_bytes n v) = n.
Proof. revert v. induction n; intros v; cbn [le_bytes length]; auto. Qed.

Lemma len_le_bytes n v : len (le_bytes n v) = N.of_nat n.
Proof. unfold len. rewrite le_bytes_length. reflexivity. Qed.

(* ------------------------------------------------------------------ *)
(* addr_eqb is equality                                                *)
(* ------------------------------------------------------------------ *)
Lemma addr_eqb_eq : forall a b, addr_eqb a b = true <-> a = b.
Proof.
  intros [i p|i p] [j q|j q]; unfold addr_eqb; split; intros H; try discriminate.
  - apply andb_true_iff in H. destruct H as [H1 H2].
    apply list_eqb_N_eq in H1. apply N.eqb_eq in H2. subst. reflexivity.
  - injection H as -> ->. rewrite bytes_eqb_refl, N.eqb_refl. reflexivity.
  - apply andb_true_iff in H. destruct H as [H1 H2].
    apply list_eqb_N_eq in H1. apply N.eqb_eq in H2. subst. reflexivity.
  - injection H as -> ->. rewrite bytes_eqb_refl, N.eqb_refl. reflexivity.
Qed.

Lemma addr_eqb_refl : forall a, addr_eqb a a = true.
Proof. intros a. apply addr_eqb_eq. reflexivity. Qed.

Lemma addr_eqb_neq : forall a b, addr_eqb a b = false <-> a <> b.
Proof.
  intros a b. split.
  - intros H E. apply addr_eqb_eq in E. congruence.
  - intros H. destruct (addr_eqb a b) eqn:E; [|reflexivity]. apply addr_eqb_eq in E. contradiction.
Qed.

Lemma addr_eqb_sym : forall a b, addr_eqb a b = addr_eqb b a.
Proof.
  intros a b. destruct (addr_eqb a b) eqn:E.
  - apply addr_eqb_eq in E. subst. symmetry. apply addr_eqb_refl.
  - symmetry. apply addr_eqb_neq. apply addr_eqb_neq in E. congruence.
Qed.

Lemma addr_eqb_trans : forall a b c, addr_eqb a b = true -> addr_eqb b c = true -> addr_eqb a c = true.
Proof. intros a b c H1 H2. apply addr_eqb_eq in H1. apply addr_eqb_eq in H2. apply addr_eqb_eq. congruence. Qed.

Lemma addr_eq_dec : forall a b : addr, {a = b} + {a <> b}.
Proof.
  intros a b. destruct (addr_eqb a b) eqn:E.
  - left. apply addr_eqb_eq. exact E.
  - right. apply addr_eqb_neq. exact E.
Qed.

(* ------------------------------------------------------------------ *)
(* distinct_by with a boolean equality that reflects = is NoDup        *)
(* ------------------------------------------------------------------ *)
Lemma distinct_by_NoDup {A} (eqb : A -> A -> bool) :
  (forall x y, eqb x y = true <-> x = y) ->
  forall l, distinct_by eqb l <-> NoDup l.
Proof.
  intros R l. induction l as [|x l IH]; cbn [distinct_by].
  - split; intros _; [constructor | exact I].
  - rewrite IH. split.
    + intros [H1 H2]. constructor; [|exact H2].
      intros Hin. specialize (H1 _ Hin).
      assert (eqb x x = true) by (apply R; reflexivity). congruence.
    + intros H. inversion H as [|? ? Hn Hd]; subst. split; [|exact Hd].
      intros y Hy. destruct (eqb x y) eqn:E; [|reflexivity].
      apply R in E. subst. contradiction.
Qed.

Lemma distinct_N_NoDup : forall l, distinct_by N.eqb l <-> NoDup l.
Proof. apply distinct_by_NoDup. intros x y. apply N.eqb_eq. Qed.

Lemma distinct_addr_NoDup : forall l, distinct_by addr_eqb l <-> NoDup l.
Proof. apply distinct_by_NoDup. apply addr_eqb_eq. Qed.

(* NoDup helpers *)
Lemma NoDup_insert {A} (a : A) l1 l2 : NoDup (l1 ++ l2) -> ~ In a (l1 ++ l2) -> NoDup (l1 ++ a :: l2).
Proof.
  intros H1 H2. apply (proj2 (NoDup_Add (Add_app a l1 l2))). split; assumption.
Qed.

Lemma NoDup_snoc {A} (a : A) l : NoDup l -> ~ In a l -> NoDup (l ++ [a]).
Proof.
  intros H1 H2. apply NoDup_insert; rewrite app_nil_r; assumption.
Qed.

Lemma NoDup_map_filter {A B} (f : A -> B) (p : A -> bool) l :
  NoDup (map f l) -> NoDup (map f (filter p l)).
Proof.
  induction l as [|x l IH]; cbn [map filter]; intros H; [constructor|].
  inversion H as [|? ? Hn Hd]; subst.
  destruct (p x); cbn [map]; [|auto].
  constructor; [|auto]. intros Hin. apply Hn.
  apply in_map_iff in Hin. destruct Hin as [y [Hy1 Hy2]]. apply filter_In in Hy2.
  apply in_map_iff. exists y. tauto.
Qed.

(* ------------------------------------------------------------------ *)
(* nth_opt / upd : decomposition                                       *)
(* ------------------------------------------------------------------ *)
Lemma nth_opt_split {A} (l : list A) k x :
  nth_opt l k = Some x -> exists l1 l2, l = l1 ++ x :: l2 /\ length l1 = k.
Proof.
  revert k. induction l as [|y l IH]; intros [|k] H; cbn [nth_opt] in H; try discriminate.
  - injection H as ->. exists [], l. split; reflexivity.
  - destruct (IH _ H) as [l1 [l2 [E L]]]. exists (y :: l1), l2. subst. split; reflexivity.
Qed.

Lemma nth_opt_app_mid {A} (l1 l2 : list A) x : nth_opt (l1 ++ x :: l2) (length l1) = Some x.
Proof. induction l1 as [|y l1 IH]; cbn [app length nth_opt]; auto. Qed.

Lemma upd_app_mid {A} (l1 l2 : list A) x y : upd (l1 ++ x :: l2) (length l1) y = l1 ++ y :: l2.
Proof. induction l1 as [|z l1 IH]; cbn [app length upd]; [reflexivity|]. rewrite IH. reflexivity. Qed.

Lemma upd_length {A} (l : list A) i x : length (upd l i x) = length l.
Proof. revert i. induction l as [|y l IH]; intros [|i]; cbn [upd length]; auto. Qed.

Lemma upd_out {A} (l : list A) i x : (length l <= i)%nat -> upd l i x = l.
Proof.
  revert i. induction l as [|y l IH]; intros [|i] H; cbn [upd length] in *; try reflexivity; try lia.
  rewrite IH; [reflexivity | lia].
Qed.

(* ------------------------------------------------------------------ *)
(* some_list / count_some                                              *)
(* ------------------------------------------------------------------ *)
Lemma some_list_app {A} (l1 l2 : list (option A)) : some_list (l1 ++ l2) = some_list l1 ++ some_list l2.
Proof.
  induction l1 as [|[x|] l1 IH]; cbn [app some_list]; [reflexivity | rewrite IH; reflexivity | exact IH].
Qed.

Lemma some_list_repeat_none {A} n : some_list (repeatN (@None A) n) = [].
Proof. induction n; cbn [repeatN some_list]; auto. Qed.

Lemma some_list_In {A} (l : list (option A)) x : In x (some_list l) <-> In (Some x) l.
Proof.
  induction l as [|[y|] l IH]; cbn [some_list In].
  - tauto.
  - rewrite IH. split; intros [H|H]; auto; left; congruence.
  - rewrite IH. split; [auto|]. intros [H|H]; [discriminate|auto].
Qed.

Lemma count_some_len {A} (l : list (option A)) : count_some l = len (some_list l).
Proof.
  unfold count_some. induction l as [|[x|] l IH]; cbn [filter some_list].
  - reflexivity.
  - rewrite !len_cons, IH. reflexivity.
  - exact IH.
Qed.

Lemma count_some_le {A} (l : list (option A)) : count_some l <= len l.
Proof.
  rewrite count_some_len. induction l as [|[x|] l IH]; cbn [some_list]; rewrite ?len_cons, ?len_nil; try rewrite len_cons; lia.
Qed.

Lemma count_some_app {A} (l1 l2 : list (option A)) : count_some (l1 ++ l2) = count_some l1 + count_some l2.
Proof. rewrite !count_some_len, some_list_app, len_app. reflexivity. Qed.

Lemma count_some_cons_some {A} (x : A) l : count_some (Some x :: l) = 1 + count_some l.
Proof. rewrite !count_some_len. cbn [some_list]. apply len_cons. Qed.

Lemma count_some_cons_none {A} (l : list (option A)) : count_some (None :: l) = count_some l.
Proof. rewrite !count_some_len. reflexivity. Qed.

(* ------------------------------------------------------------------ *)
(* find_slot_by                                                        *)
(* ------------------------------------------------------------------ *)
Lemma find_slot_by_none f cl i :
  find_slot_by f cl i = None <-> (forall c, In c (some_list cl) -> f c = false).
Proof.
  revert i. induction cl as [|[c|] cl IH]; intros i; cbn [find_slot_by some_list].
  - split; [intros _ c []|reflexivity].
  - destruct (f c) eqn:E.
    + split; [discriminate|]. intros H. specialize (H c (or_introl eq_refl)). congruence.
    + rewrite IH. split.
      * intros H c' [<-|Hc]; auto.
      * intros H c' Hc. apply H. right. exact Hc.
  - apply IH.
Qed.

(* the slot returned: everything before it fails the test, the entry passes *)
Lemma find_slot_by_some f cl i j c :
  find_slot_by f cl i = Some (j, c) ->
  exists l1 l2, cl = l1 ++ Some c :: l2 /\ j = i + len l1 /\ f c = true /\
                (forall c', In c' (some_list l1) -> f c' = false).
Proof.
  revert i. induction cl as [|[c0|] cl IH]; intros i H; cbn [find_slot_by] in H.
  - discriminate.
  - destruct (f c0) eqn:E.
    + injection H as <- <-. exists [], cl. rewrite len_nil. repeat split; auto; try lia. intros c' [].
    + destruct (IH _ H) as [l1 [l2 [E1 [E2 [E3 E4]]]]]. exists (Some c0 :: l1), l2.
      subst. rewrite len_cons. repeat split; auto; try lia.
      intros c' [<-|Hc]; auto.
  - destruct (IH _ H) as [l1 [l2 [E1 [E2 [E3 E4]]]]]. exists (None :: l1), l2.
    subst. rewrite len_cons. repeat split; auto; try lia.
Qed.

Lemma find_slot_by_mid f l1 c l2 i :
  f c = true -> (forall c', In c' (some_list l1) -> f c' = false) ->
  find_slot_by f (l1 ++ Some c :: l2) i = Some (i + len l1, c).
Proof.
  revert i. induction l1 as [|[c0|] l1 IH]; intros i Hc Hl; cbn [app find_slot_by].
  - rewrite Hc, len_nil. f_equal. f_equal. lia.
  - rewrite (Hl c0) by (left; reflexivity). rewrite IH; auto.
    + rewrite len_cons. f_equal. f_equal. lia.
    + intros c' Hc'. apply Hl. right. exact Hc'.
  - rewrite IH; auto. rewrite len_cons. f_equal. f_equal. lia.
Qed.

Lemma find_slot_by_In f cl i j c : find_slot_by f cl i = Some (j, c) -> In c (some_list cl) /\ f c = true.
Proof.
  intros H. destruct (find_slot_by_some _ _ _ _ _ H) as [l1 [l2 [E1 [E2 [E3 E4]]]]]. subst.
  split; [|exact E3]. rewrite some_list_app. apply in_or_app. right. left. reflexivity.
Qed.

(* the result only depends on some_list, up to the slot number *)
Lemma find_slot_by_is_some f cl i :
  (exists c, In c (some_list cl) /\ f c = true) -> exists j c, find_slot_by f cl i = Some (j, c).
Proof.
  intros [c [H1 H2]]. destruct (find_slot_by f cl i) as [[j c']|] eqn:E; [eauto|].
  rewrite find_slot_by_none in E. rewrite (E _ H1) in H2. discriminate.
Qed.

Lemma find_slot_by_app_none f cl n i :
  find_slot_by f (cl ++ repeatN None n) i = find_slot_by f cl i.
Proof.
  revert i. induction cl as [|[c|] cl IH]; intros i; cbn [app find_slot_by].
  - revert i. induction n as [|n IHn]; intros i; cbn [repeatN find_slot_by]; auto.
  - destruct (f c); auto.
  - auto.
Qed.

(* ------------------------------------------------------------------ *)
(* first_free                                                          *)
(* ------------------------------------------------------------------ *)
Lemma first_free_some cl i j :
  first_free cl i = Some j -> exists l1 l2, cl = l1 ++ None :: l2 /\ j = i + len l1.
Proof.
  revert i. induction cl as [|[c|] cl IH]; intros i H; cbn [first_free] in H.
  - discriminate.
  - destruct (IH _ H) as [l1 [l2 [E1 E2]]]. exists (Some c :: l1), l2. subst. rewrite len_cons.
    split; [reflexivity | lia].
  - injection H as <-. exists [], cl. rewrite len_nil. split; [reflexivity | lia].
Qed.

Lemma first_free_none cl i : first_free cl i = None -> count_some cl = len cl.
Proof.
  revert i. induction cl as [|[c|] cl IH]; intros i H; cbn [first_free] in H.
  - reflexivity.
  - rewrite count_some_cons_some, len_cons, (IH _ H). reflexivity.
  - discriminate.
Qed.

Lemma first_free_full cl i : count_some cl = len cl -> first_free cl i = None.
Proof.
  revert i. induction cl as [|[c|] cl IH]; intros i H; cbn [first_free].
  - reflexivity.
  - apply IH. rewrite count_some_cons_some, len_cons in H. lia.
  - rewrite count_some_cons_none, len_cons in H. pose proof (count_some_le cl). lia.
Qed.

(* ------------------------------------------------------------------ *)
(* pending association list                                            *)
(* ------------------------------------------------------------------ *)
Lemma pend_find_In a p c : pend_find a p = Some c -> In (a, c) p.
Proof.
  induction p as [|[a' c'] p IH]; cbn [pend_find]; intros H; [discriminate|].
  destruct (addr_eqb a a') eqn:E.
  - apply addr_eqb_eq in E. injection H as ->. subst. left. reflexivity.
  - right. auto.
Qed.

Lemma pend_find_none a p : pend_find a p = None <-> ~ In a (map fst p).
Proof.
  induction p as [|[a' c'] p IH]; cbn [pend_find map fst In].
  - tauto.
  - destruct (addr_eqb a a') eqn:E.
    + apply addr_eqb_eq in E. subst. split; [discriminate|]. intros H. exfalso. apply H. left. reflexivity.
    + apply addr_eqb_neq in E. rewrite IH. split; intros H; [intros [H1|H1]; [congruence|auto] | auto].
Qed.

Lemma pend_find_In_nodup a p c : NoDup (map fst p) -> In (a, c) p -> pend_find a p = Some c.
Proof.
  induction p as [|[a' c'] p IH]; cbn [pend_find map fst In]; intros Hd H; [contradiction|].
  inversion Hd as [|? ? Hn Hd']; subst.
  destruct H as [H|H].
  - injection H as -> ->. rewrite addr_eqb_refl. reflexivity.
  - destruct (addr_eqb a a') eqn:E.
    + apply addr_eqb_eq in E. subst. exfalso. apply Hn. apply in_map_iff. exists (a', c). auto.
    + auto.
Qed.

(* pend_put on a present key replaces the value in place *)
Lemma pend_put_found_keys a c p c0 :
  pend_find a p = Some c0 -> map fst (pend_put a c p) = map fst p.
Proof.
  intros H. unfold pend_put. rewrite H. rewrite map_map. apply map_ext.
  intros [a' c']. cbn [fst]. destruct (addr_eqb a a'); reflexivity.
Qed.

Lemma pend_put_found_In a c p c0 x :
  pend_find a p = Some c0 -> In x (pend_put a c p) -> x = (a, c) \/ (In x p /\ fst x <> a).
Proof.
  intros H. unfold pend_put. rewrite H. intros Hin. apply in_map_iff in Hin.
  destruct Hin as [[a' c'] [E Hin]]. cbn [fst] in E.
  destruct (addr_eqb a a') eqn:Ea.
  - apply addr_eqb_eq in Ea. subst. left. reflexivity.
  - apply addr_eqb_neq in Ea. subst. right. split; [exact Hin|]. cbn [fst]. congruence.
Qed.

Lemma pend_put_new a c p : pend_find a p = None -> pend_put a c p = p ++ [(a, c)].
Proof. intros H. unfold pend_put. rewrite H. reflexivity. Qed.

Lemma pend_put_find a c p : pend_find a (pend_put a c p) = Some c.
Proof.
  unfold pend_put. destruct (pend_find a p) eqn:E.
  - induction p as [|[a' c'] p IH]; cbn [pend_find] in E; [discriminate|].
    cbn [map fst]. destruct (addr_eqb a a') eqn:Ea; cbn [pend_find fst]; rewrite Ea; auto.
  - induction p as [|[a' c'] p IH]; cbn [pend_find app] in *.
    + rewrite addr_eqb_refl. reflexivity.
    + destruct (addr_eqb a a'); [discriminate|auto].
Qed.

Lemma pend_remove_In a p x : In x (pend_remove a p) -> In x p.
Proof.
  induction p as [|[a' c'] p IH]; cbn [pend_remove]; intros H; [contradiction|].
  destruct (addr_eqb a a'); [right; exact H|].
  destruct H as [H|H]; [left; exact H | right; auto].
Qed.

Lemma pend_remove_keys a p :
  NoDup (map fst p) -> NoDup (map fst (pend_remove a p)) /\ ~ In a (map fst (pend_remove a p)).
Proof.
  induction p as [|[a' c'] p IH]; cbn [pend_remove map fst]; intros H.
  - split; [constructor | intros []].
  - inversion H as [|? ? Hn Hd]; subst. destruct (addr_eqb a a') eqn:E.
    + apply addr_eqb_eq in E. subst. split; assumption.
    + apply addr_eqb_neq in E. destruct (IH Hd) as [I1 I2]. cbn [map fst]. split.
      * constructor; [|exact I1]. intros Hin. apply Hn.
        apply in_map_iff in Hin. destruct Hin as [x [E1 E2]]. apply pend_remove_In in E2.
        apply in_map_iff. exists x. auto.
      * intros [H1|H1]; [congruence | auto].
Qed.

Lemma pend_remove_absent a p : pend_find a p = None -> pend_remove a p = p.
Proof.
  induction p as [|[a' c'] p IH]; cbn [pend_find pend_remove]; intros H; [reflexivity|].
  destruct (addr_eqb a a'); [discriminate|]. rewrite IH; auto.
Qed.

Lemma pend_remove_len a p : len (pend_remove a p) <= len p.
Proof.
  induction p as [|[a' c'] p IH]; cbn [pend_remove]; [lia|].
  destruct (addr_eqb a a'); rewrite ?len_cons; try rewrite len_cons; lia.
Qed.

Lemma pend_put_In a c p x : In x (pend_put a c p) -> x = (a, c) \/ In x p.
Proof.
  destruct (pend_find a p) as [c0|] eqn:E.
  - intros H. destruct (pend_put_found_In _ _ _ _ _ E H) as [H1|[H1 _]]; auto.
  - rewrite (pend_put_new _ _ _ E). intros H. apply in_app_or in H. destruct H as [H|[H|[]]]; auto.
Qed.

Lemma Forall_pend_put {P : addr * nconn -> Prop} a c p : Forall P p -> P (a, c) -> Forall P (pend_put a c p).
Proof.
  intros H1 H2. apply Forall_forall. intros x Hx. destruct (pend_put_In _ _ _ _ Hx) as [->|Hin]; [exact H2|].
  rewrite Forall_forall in H1. auto.
Qed.

Lemma Forall_pend_remove {P : addr * nconn -> Prop} a p : Forall P p -> Forall P (pend_remove a p).
Proof.
  intros H1. apply Forall_forall. intros x Hx. apply pend_remove_In in Hx.
  rewrite Forall_forall in H1. auto.
Qed.

Lemma Forall_filter {A} (P : A -> Prop) f l : Forall P l -> Forall P (filter f l).
Proof.
  intros H1. apply Forall_forall. intros x Hx. apply filter_In in Hx.
  rewrite Forall_forall in H1. apply H1. tauto.
Qed.

(* nth_opt of an updated list *)
Lemma nth_opt_upd_same {A} (l : list A) i x : (i < length l)%nat -> nth_opt (upd l i x) i = Some x.
Proof.
  revert i. induction l as [|y l IH]; intros [|i] H; cbn [upd nth_opt length] in *; try lia; auto.
  apply IH. lia.
Qed.

Lemma nth_opt_upd_other {A} (l : list A) i j x : i <> j -> nth_opt (upd l i x) j = nth_opt l j.
Proof.
  revert i j. induction l as [|y l IH]; intros [|i] [|j] H; cbn [upd nth_opt]; try reflexivity; try congruence.
  apply IH. congruence.
Qed.

Lemma nth_opt_some_lt {A} (l : list A) i x : nth_opt l i = Some x -> (i < length l)%nat.
Proof.
  revert i. induction l as [|y l IH]; intros [|i] H; cbn [nth_opt length] in *; try discriminate; try lia.
  specialize (IH _ H). lia.
Qed.

Lemma nth_opt_app_l {A} (l1 l2 : list A) i x : nth_opt l1 i = Some x -> nth_opt (l1 ++ l2) i = Some x.
Proof.
  revert i. induction l1 as [|y l1 IH]; intros [|i] H; cbn [nth_opt app] in *; try discriminate; auto.
Qed.

Lemma In_upd {A} (l : list A) k y x : In x (upd l k y) -> x = y \/ In x l.
Proof.
  revert k. induction l as [|z l IH]; intros [|k]; cbn [upd In]; try tauto.
  - intros [H|H]; auto.
  - intros [H|H]; auto. destruct (IH _ H); auto.
Qed.

Lemma In_repeatN {A} (y x : A) n : In x (repeatN y n) -> x = y.
Proof. induction n; cbn [repeatN In]; [intros [] | intros [H|H]; auto]. Qed.

Lemma nth_opt_In {A} (l : list A) k x : nth_opt l k = Some x -> In x l.
Proof.
  revert k. induction l as [|z l IH]; intros [|k]; cbn [nth_opt In]; try discriminate.
  - intros H; injection H as ->. auto.
  - intros H. right. apply (IH _ H).
Qed.
