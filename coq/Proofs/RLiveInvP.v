(* RLiveInvP.v - the liveness invariant of the direction A -> B of the two-endpoint system:
   what B acknowledges has reached B's reliable receive channels, hence what A has released
   (or marked as acknowledged) is held or was handed over by B.  The safety invariant of
   Proofs/RSysP.v says "was handed to process_packet"; this one says "is in the receive channel".
   It holds after every run from sys_init (live_inv_holds). *)
From RenetV Require Import Base Consts Varint Packet Channels Conn Server.
From RenetV Require Import CodecSpec RecvSpec SendSpec ConnSpec ConnInvSpec RSysSpec RSysInvSpec RLiveSpec.
From RenetV Require Import SMapP ConnBaseP ConnProcP ConnFlushP ConnP RSysBaseP RSysStepP RSysInvP RSysP RLiveBaseP.
From RenetV Require AcksP VarintP PacketP RecvRelP RecvUnrelP SMapSendP SendRelP SendUnrelP DisconnectP ConnEncP SliceP.
Require Import Lia ZifyBool ZifyN ZifyNat Permutation.
Open Scope N_scope.

Arguments N.add : simpl never.
Arguments N.sub : simpl never.
Arguments N.mul : simpl never.
Arguments N.div : simpl never.
Arguments N.modulo : simpl never.
Arguments N.eqb : simpl never.
Arguments N.ltb : simpl never.
Arguments N.leb : simpl never.
Local Opaque SLICE_SIZE MAX_ACK_RANGES SER_BUFFER NC_MAX_PAYLOAD_BYTES DISCARD_PACKET_SECS VARINT_MAX MAX_NUM_SLICES.

Import SendRelP(st_of, static_of, pkt_ok, entry_ok, packed, part_acked).

(* ================================================================== *)
(* definitions *)

(* the events a reliable packet stands for at the receiver, and its channel *)
Definition pkt_evs (p : packet) : list rev :=
  match p with
  | SmallReliable _ _ ms => map (fun im => RSmall (fst im)) ms
  | ReliableSlice _ _ sl => [RSlice (sl_id sl) (sl_index sl)]
  | _ => []
  end.

Definition pkt_rel_ch (p : packet) : option N :=
  match p with SmallReliable _ ch _ | ReliableSlice _ ch _ => Some ch | _ => None end.

(* everything the packet carries has arrived in the receive channel *)
Definition pkt_done (rr : list (N * recv_rel)) (p : packet) : Prop :=
  match pkt_rel_ch p with
  | Some ch => forall r, sm_find ch rr = Some r -> Forall (ev_done r) (pkt_evs p)
  | None => True
  end.

(* sequence number x belongs to a packet of the sender whose contents have arrived *)
Definition seq_done (oa : list (list N)) (rr : list (N * recv_rel)) (x : N) : Prop :=
  exists bytes p, In bytes oa /\ from_bytes bytes = Ok p /\ packet_seq p = x /\ pkt_done rr p.

(* sr seqa: the sender's reliable send channels and next sequence number;
   rr acks dead recsb: the receiver's reliable receive channels, pending acks, whether it is
   disconnected, its sent-packet records; oa / ob: everything the sender / receiver emitted *)
Record linv (sr : list (N * send_rel)) (seqa : N) (rr : list (N * recv_rel)) (acks : list (N * N)) (dead : bool)
       (recsb : list (N * (N * sent_info))) (oa ob : list (list N)) : Prop := {
  li_acks : dead = false -> forall x, in_ranges x acks -> seq_done oa rr x;
  li_ackpk : forall bytes sq rs, In bytes ob -> from_bytes bytes = Ok (Ack sq rs) ->
               forall x, in_ranges x rs -> seq_done oa rr x;
  li_rel : forall ch sa r, sm_find ch sr = Some sa -> sm_find ch rr = Some r ->
             (forall id, id < sr_next_id sa -> kind_of sa id = None -> rr_seen r id = true) /\
             (forall id idx, slice_acked sa id idx = Some true -> ev_done r (RSlice id idx));
  li_ackrec : forall k t largest, sm_find k recsb = Some (t, SIAck largest) -> largest < seqa
}.

Definition live_inv (s : rsys) : Prop :=
  linv (c_sr (ra s)) (c_seq (ra s)) (c_rr (rb s)) (c_acks (rb s)) (is_disconnected (rb s)) (c_sent (rb s))
       (out_a s) (out_b s) /\
  order_inv (ra s).

(* ================================================================== *)
(* monotonicity of the components *)

Lemma seq_done_oa oa more rr x : seq_done oa rr x -> seq_done (oa ++ more) rr x.
Proof. intros (b & p & A & B). exists b, p. split; [apply in_or_app; now left|exact B]. Qed.

Lemma linv_oa sr seqa rr acks dead recsb oa ob more seqa' :
  seqa <= seqa' -> linv sr seqa rr acks dead recsb oa ob -> linv sr seqa' rr acks dead recsb (oa ++ more) ob.
Proof.
  intros Hle [L1 L2 L3 L4]. constructor; auto.
  - intros Hd x Hx. apply seq_done_oa. auto.
  - intros b sq rs Hin Hp x Hx. apply seq_done_oa. eauto.
  - intros k t lg Hf. specialize (L4 k t lg Hf). lia.
Qed.

Lemma linv_static sr sr' seqa rr acks dead recsb oa ob :
  sr_static sr sr' -> linv sr seqa rr acks dead recsb oa ob -> linv sr' seqa rr acks dead recsb oa ob.
Proof.
  intros Hst [L1 L2 L3 L4]. constructor; auto.
  intros ch sa' r Hf' Hr. specialize (Hst ch). destruct (sm_find ch sr) as [s|] eqn:Es; [|congruence].
  destruct Hst as (s' & E' & Hn & Hk & Hp). rewrite Hf' in E'. injection E' as <-.
  destruct (L3 ch s r Es Hr) as [A B]. split.
  - intros id Hid Hkn. apply A; [lia|]. rewrite kind_of_st in *. now rewrite <- Hk.
  - intros id idx Hidx. apply B. rewrite SendRelP.slice_acked_packed in *. now rewrite <- Hp.
Qed.

(* the receiver forgets pending acks or sent-packet records, or dies *)
Lemma linv_sub sr seqa rr acks acks' dead dead' recsb recsb' oa ob :
  (dead' = false -> dead = false /\ forall x, in_ranges x acks' -> in_ranges x acks) ->
  (forall k v, sm_find k recsb' = Some v -> sm_find k recsb = Some v) ->
  linv sr seqa rr acks dead recsb oa ob -> linv sr seqa rr acks' dead' recsb' oa ob.
Proof.
  intros Ha Hr [L1 L2 L3 L4]. constructor; auto.
  - intros Hd x Hx. destruct (Ha Hd) as [Hd0 Hsub]. auto.
  - intros k t lg Hf. eauto.
Qed.

(* events named by honest packets and by the sender's bookkeeping concern submitted messages *)
Lemma honest_live sent p ch : pkt_honest sent p -> pkt_rel_ch p = Some ch ->
  Forall (ev_live (log_get sent ch)) (pkt_evs p) /\ Forall (rev_ok (log_get sent ch)) (pkt_evs p).
Proof.
  destruct p as [sq c ms|sq c ms|sq c sl|sq c sl|sq rs]; cbn [pkt_honest pkt_rel_ch pkt_evs]; try discriminate.
  - intros H [= <-]. assert (F : Forall (rev_ok (log_get sent c)) (map (fun im => RSmall (fst im)) ms))
      by now apply small_events_ok.
    split; [|exact F]. eapply Forall_impl; [|exact F]. intros e. apply rev_ok_live.
  - intros (m & Hat & Hl & Hsl & Hidx) [= <-].
    assert (R : rev_ok (log_get sent c) (RSlice (sl_id sl) (sl_index sl))) by (cbn [rev_ok]; eauto).
    split; constructor; auto. now apply rev_ok_live.
Qed.

(* one receive channel moves on; what had arrived stays arrived *)
Lemma linv_rr sr seqa rr acks dead recsb oa ob sent ch r r' :
  sender_ok sr sent -> out_ok oa sent -> sm_find ch rr = Some r ->
  (forall e, ev_live (log_get sent ch) e -> ev_done r e -> ev_done r' e) ->
  linv sr seqa rr acks dead recsb oa ob -> linv sr seqa (sm_insert ch r' rr) acks dead recsb oa ob.
Proof.
  intros Hso Hout Hr Hmono [L1 L2 L3 L4].
  assert (Hsd : forall x, seq_done oa rr x -> seq_done oa (sm_insert ch r' rr) x).
  { intros x (b & p & Hin & Hp & Hsq & Hd). exists b, p. repeat (split; [assumption|]).
    unfold pkt_done in *. destruct (pkt_rel_ch p) as [c0|] eqn:Ec; [|exact I].
    intros r0. rewrite sm_find_insert. destruct (N.eqb_spec c0 ch) as [->|Hne]; [|apply Hd].
    intros [= <-]. specialize (Hd r Hr).
    destruct (honest_live sent p ch (Hout b p Hin Hp) Ec) as [Hl _].
    rewrite Forall_forall in *. intros e He. apply Hmono; auto. }
  constructor; auto.
  - intros b sq rs Hin Hp x Hx. apply Hsd. eauto.
  - intros c0 sa r0 Hsa. rewrite sm_find_insert. destruct (N.eqb_spec c0 ch) as [->|Hne]; [|now apply L3].
    intros [= <-]. destruct (L3 ch sa r Hsa Hr) as [A B]. destruct (Hso ch sa Hsa) as [Hnext Hmsgs]. split.
    + intros id Hid Hk. apply (Hmono (RSmall id)); [|now apply A]. cbn [ev_live].
      unfold msg_at. intros Hn. apply nth_error_None in Hn. unfold len in *. lia.
    + intros id idx Hidx. apply Hmono; [|now apply B]. cbn [ev_live].
      unfold slice_acked in Hidx. destruct (sm_find id (sr_unacked sa)) as [u|] eqn:Eu; [|discriminate].
      rewrite (Hmsgs id u Eu). discriminate.
Qed.

Lemma cstep_dead_mono c o c' out : cstep c o = Ok (c', out) -> is_disconnected c = true -> is_disconnected c' = true.
Proof.
  intros E Hd. apply DisconnectP.is_disconnected_status in Hd. destruct Hd as (r & Hr).
  apply DisconnectP.is_disconnected_status. exists r. eapply DisconnectP.cstep_status; eauto.
Qed.

(* ================================================================== *)
(* the sender's API calls *)

Lemma linv_send_rel sr seqa rr acks dead recsb oa ob ch s m s' :
  sm_find ch sr = Some s -> sr_send s m = Ok s' ->
  linv sr seqa rr acks dead recsb oa ob -> linv (sm_insert ch s' sr) seqa rr acks dead recsb oa ob.
Proof.
  intros Hs E [L1 L2 L3 L4]. destruct (sr_send_shape _ _ _ E) as (Hn & u & Hu & Hum & Hua).
  constructor; auto.
  intros c0 sa r. rewrite sm_find_insert. destruct (N.eqb_spec c0 ch) as [->|Hne]; [|now apply L3].
  intros [= <-] Hr. destruct (L3 ch s r Hs Hr) as [A B]. split.
  - intros id Hid Hk. destruct (N.eq_dec id (sr_next_id s)) as [->|Hne].
    + apply kind_none_find in Hk. rewrite Hu, sm_find_insert_same in Hk. discriminate.
    + apply A; [lia|]. rewrite <- Hk. symmetry. apply kind_of_ext. rewrite Hu. now apply sm_find_insert_other.
  - intros id idx Hidx. apply B. rewrite slice_acked_part in *.
    destruct (N.eq_dec id (sr_next_id s)) as [->|Hne].
    + rewrite Hu, sm_find_insert_same in Hidx. exfalso. eapply Hua; eauto.
    + rewrite Hu, sm_find_insert_other in Hidx by exact Hne. exact Hidx.
Qed.

Lemma linv_sender_api c op c' out rr acks dead recsb oa ob :
  conn_inv c -> chans_u8 c -> is_process op = false -> cstep c op = Ok (c', out) ->
  linv (c_sr c) (c_seq c) rr acks dead recsb oa ob ->
  linv (c_sr c') (c_seq c') rr acks dead recsb (oa ++ outs_of out) ob.
Proof.
  intros Hi Hu8 Hnp E L.
  assert (Hsame : forall c2, c_sr c2 = c_sr c -> c_seq c2 = c_seq c ->
            linv (c_sr c2) (c_seq c2) rr acks dead recsb (oa ++ []) ob).
  { intros c2 -> ->. now rewrite app_nil_r. }
  assert (Hdw : forall r, linv (c_sr (disconnect_with c r)) (c_seq (disconnect_with c r)) rr acks dead recsb (oa ++ []) ob).
  { intros r. destruct (disconnect_with_fields c r) as (A1 & _ & _ & _ & _ & _ & A7 & _). now apply Hsame. }
  destruct op as [ch m|ch|dt|b| | | | |]; try discriminate; cbn [cstep] in E.
  - destruct (send_message c ch m) as [c1| |] eqn:E1; cbn [bind] in E; try discriminate.
    injection E as <- <-. cbn [outs_of]. unfold send_message in E1.
    destruct (is_disconnected c) eqn:Hd; [injection E1 as <-; now apply Hsame|].
    destruct (sm_find ch (c_sr c)) as [s|] eqn:Hs.
    + destruct (sr_send s m) as [s'| |] eqn:Es; try discriminate.
      * injection E1 as <-. cbn [with_sr c_sr c_seq]. rewrite app_nil_r. eapply linv_send_rel; eauto.
      * injection E1 as <-. apply Hdw.
    + destruct (sm_find ch (c_su c)) as [s|] eqn:Hu; try discriminate.
      injection E1 as <-. now apply Hsame.
  - destruct (receive_message c ch) as [[c1 mo]| |] eqn:E1; cbn [bind] in E; try discriminate.
    injection E as <- <-. cbn [outs_of].
    destruct (channel_frame_receive c ch c1 mo E1) as (_ & A1 & _ & _ & _ & A5 & _). now apply Hsame.
  - destruct (update c dt) as [c1| |] eqn:E1; cbn [bind] in E; try discriminate.
    injection E as <- <-. cbn [outs_of].
    destruct (update_unfold c dt c1 E1) as (ru1 & sent1 & _ & _ & ->). now apply Hsame.
  - destruct (get_packets_to_send c) as [[c1 p]| |] eqn:E1; cbn [bind] in E; try discriminate.
    injection E as <- <-. cbn [outs_of].
    destruct (is_disconnected c) eqn:Hd.
    + rewrite (DisconnectP.get_packets_to_send_disconnected_noop c Hd) in E1. injection E1 as <- <-. now apply Hsame.
    + destruct (flush_pack c c1 p Hi Hu8 Hd E1) as (pk & f & _ & Hseq & _ & _ & Hst & _).
      eapply linv_static; [exact Hst|]. apply (linv_oa _ (c_seq c)); [lia|exact L].
  - injection E as <- <-. cbn [outs_of]. unfold set_connected. destruct (is_disconnected c); now apply Hsame.
  - injection E as <- <-. cbn [outs_of]. unfold set_connecting. destruct (is_disconnected c); now apply Hsame.
  - injection E as <- <-. cbn [outs_of]. apply Hdw.
  - injection E as <- <-. cbn [outs_of]. apply Hdw.
Qed.

(* ================================================================== *)
(* the receiver's API calls *)

Lemma linv_recv_rel sr seqa rr acks dead recsb oa ob sent got ordf ch r r' mo :
  sender_ok sr sent -> out_ok oa sent -> receiver_ok ordf rr sent got ->
  sm_find ch rr = Some r -> rr_receive r = Ok (r', mo) ->
  linv sr seqa rr acks dead recsb oa ob -> linv sr seqa (sm_insert ch r' rr) acks dead recsb oa ob.
Proof.
  intros Hso Hout Hrcv Hr E L. eapply linv_rr; eauto.
  specialize (Hrcv ch). rewrite Hr in Hrcv. destruct Hrcv as (o & _ & Hre).
  destruct (rr_refines_hcore _ _ _ _ Hre) as (outs & H & _).
  destruct (rr_receive_exec (log_get sent ch) r r' mo E) as (outs2 & E2 & _).
  destruct (exec_keeps_done (log_get sent ch) [RRecv] r outs r' (outs ++ outs2)) as (_ & M & _); auto.
  constructor; [exact I|constructor].
Qed.

Lemma linv_receiver_api c op c' out sr seqa oa ob sent got ordf :
  conn_inv c -> chans_u8 c -> is_process op = false -> cstep c op = Ok (c', out) ->
  sender_ok sr sent -> out_ok oa sent -> receiver_ok ordf (c_rr c) sent got ->
  (forall x, in_ranges x (c_acks c) -> x < seqa) ->
  linv sr seqa (c_rr c) (c_acks c) (is_disconnected c) (c_sent c) oa ob ->
  linv sr seqa (c_rr c') (c_acks c') (is_disconnected c') (c_sent c') oa (ob ++ outs_of out).
Proof.
  intros Hi Hu8 Hnp E Hso Hout Hrcv Hlt L.
  pose proof (cstep_dead_mono _ _ _ _ E) as Hdm.
  assert (Hsame : forall c2, c_rr c2 = c_rr c -> c_acks c2 = c_acks c -> c_sent c2 = c_sent c ->
            (is_disconnected c2 = false -> is_disconnected c = false) ->
            linv sr seqa (c_rr c2) (c_acks c2) (is_disconnected c2) (c_sent c2) oa (ob ++ [])).
  { intros c2 -> -> -> Hd. rewrite app_nil_r. eapply linv_sub; [| |exact L]; auto. }
  assert (Hdead : is_disconnected c' = false -> is_disconnected c = false).
  { intros H. destruct (is_disconnected c); [|reflexivity]. rewrite Hdm in H by reflexivity. discriminate. }
  assert (Hdw : forall r, linv sr seqa (c_rr (disconnect_with c r)) (c_acks (disconnect_with c r))
                               (is_disconnected (disconnect_with c r)) (c_sent (disconnect_with c r)) oa (ob ++ [])).
  { intros r. destruct (disconnect_with_fields c r) as (_ & _ & A3 & _ & A5 & A6 & _). apply Hsame; auto.
    rewrite DisconnectP.disconnect_with_is_disconnected. discriminate. }
  destruct op as [ch m|ch|dt|b| | | | |]; try discriminate; cbn [cstep] in E.
  - destruct (send_message c ch m) as [c1| |] eqn:E1; cbn [bind] in E; try discriminate.
    injection E as <- <-. cbn [outs_of].
    destruct (channel_frame_send c ch m c1 E1) as (_ & A1 & _ & A3 & A4 & _). now apply Hsame.
  - destruct (receive_message c ch) as [[c1 mo]| |] eqn:E1; cbn [bind] in E; try discriminate.
    injection E as <- <-. cbn [outs_of]. rewrite app_nil_r. unfold receive_message in E1.
    destruct (is_disconnected c) eqn:Hd; [injection E1 as <- _; now rewrite Hd|].
    destruct (sm_find ch (c_rr c)) as [r|] eqn:Hr.
    + destruct (rr_receive r) as [[r' mo']| |] eqn:Er; try discriminate.
      injection E1 as <- _. cbn [with_rr c_rr c_acks c_sent].
      change (is_disconnected (with_rr c (sm_insert ch r' (c_rr c)))) with (is_disconnected c). rewrite Hd.
      eapply linv_recv_rel; eauto.
    + destruct (sm_find ch (c_ru c)) as [r|] eqn:Hu; try discriminate.
      destruct (ru_receive r) as [[r' mo']| |] eqn:Er; try discriminate.
      injection E1 as <- _. cbn [with_ru c_rr c_acks c_sent].
      change (is_disconnected (with_ru c (sm_insert ch r' (c_ru c)))) with (is_disconnected c). rewrite Hd. exact L.
  - destruct (update c dt) as [c1| |] eqn:E1; cbn [bind] in E; try discriminate.
    injection E as <- <-. cbn [outs_of]. rewrite app_nil_r.
    destruct (update_spec c dt Hi) as (c2 & E2 & _ & _ & _ & F3 & F4 & _ & _ & (pre & Hpre)).
    rewrite E1 in E2. injection E2 as <-. rewrite F3, F4.
    eapply linv_sub; [| |exact L].
    + intros H. split; [now apply Hdead|auto].
    + intros k v Hf. rewrite Hpre. apply sm_find_suffix; [|exact Hf]. rewrite <- Hpre. exact (ci_sent_sorted c Hi).
  - destruct (get_packets_to_send c) as [[c1 p]| |] eqn:E1; cbn [bind] in E; try discriminate.
    injection E as <- <-. cbn [outs_of].
    destruct (is_disconnected c) eqn:Hd.
    + rewrite (DisconnectP.get_packets_to_send_disconnected_noop c Hd) in E1. injection E1 as <- <-.
      rewrite app_nil_r, Hd. exact L.
    + destruct (flush_pack c c1 p Hi Hu8 Hd E1)
        as (pk & f & _ & _ & _ & Hrec & _ & _ & Hem & Hrr & _ & Hacks & Hst & Hdec).
      assert (Hd1 : is_disconnected c1 = false) by (unfold is_disconnected in *; now rewrite Hst).
      rewrite Hrr, Hacks, Hd1. destruct L as [L1 L2 L3 L4]. rewrite Forall_forall in Hem. constructor; auto.
      * intros b sq rs Hin Hp x Hx. apply in_app_or in Hin. destruct Hin as [Hin|Hin]; [eauto|].
        destruct (Hdec b _ Hin Hp) as [Hpk _]. destruct (Hem _ Hpk) as [-> _]. auto.
      * intros k t lg Hf. destruct (Hrec _ _ Hf) as [Hold|(p0 & Hp0 & _ & Hv)]; [eauto|].
        injection Hv as _ Hinfo. destruct p0 as [| | | |sq rs]; cbn [pkt_info] in Hinfo; try discriminate.
        injection Hinfo as ->. destruct (Hem _ Hp0) as [-> Hwf]. cbn [packet_wf] in Hwf.
        destruct Hwf as (_ & Hne & Hwf & _).
        destruct (last (c_acks c) (0, 0)) as [a b] eqn:El. cbn [snd].
        destruct (AcksP.ranges_last_end_lo _ 0 a b Hwf Hne El) as (_ & _ & _ & _ & I5).
        apply Hlt. exact I5.
  - injection E as <- <-. cbn [outs_of].
    apply Hsame; [| | |exact Hdead]; unfold set_connected; destruct (is_disconnected c); reflexivity.
  - injection E as <- <-. cbn [outs_of].
    apply Hsame; [| | |exact Hdead]; unfold set_connecting; destruct (is_disconnected c); reflexivity.
  - injection E as <- <-. cbn [outs_of]. apply Hdw.
  - injection E as <- <-. cbn [outs_of]. apply Hdw.
Qed.

(* ================================================================== *)
(* a packet of the sender is handed to the (live) receiver *)

Lemma linv_add_ack sr seqa rr acks acks' recsb oa ob x :
  seq_done oa rr x -> (forall y, in_ranges y acks' -> y = x \/ in_ranges y acks) ->
  linv sr seqa rr acks false recsb oa ob -> linv sr seqa rr acks' false recsb oa ob.
Proof.
  intros Hx Hsub [L1 L2 L3 L4]. constructor; auto.
  intros _ y Hy. destruct (Hsub y Hy) as [->|Hy']; auto.
Qed.

Lemma linv_dead sr seqa rr acks acks' recsb oa ob :
  linv sr seqa rr acks false recsb oa ob -> linv sr seqa rr acks' true recsb oa ob.
Proof. intros L. eapply linv_sub; [| |exact L]; [discriminate|auto]. Qed.

Lemma linv_deliver sr seqa oa ob sent got ordf c bytes p c' :
  conn_inv c -> is_disconnected c = false ->
  In bytes oa -> from_bytes bytes = Ok p -> packet_wf p ->
  process_packet c bytes = Ok c' ->
  sender_ok sr sent -> out_ok oa sent -> receiver_ok ordf (c_rr c) sent got ->
  linv sr seqa (c_rr c) (c_acks c) false (c_sent c) oa ob ->
  linv sr seqa (c_rr c') (c_acks c') (is_disconnected c') (c_sent c') oa ob.
Proof.
  intros Hi Hd Hin Hp Hwf E Hso Hout Hrcv L.
  destruct (process_packet_cases c bytes) as [(Hd' & _)|[(_ & e & He & _)|(_ & p0 & Hp0 & E0)]]; try congruence.
  rewrite Hp in Hp0. injection Hp0 as <-. rewrite E0 in E. clear E0.
  set (c1 := with_acks c (add_pending_ack (c_acks c) (packet_seq p))) in *.
  assert (Hi1 : conn_inv c1) by (apply inv_add_pending_ack; [exact Hi|now apply packet_wf_seq]).
  assert (Hsound : forall y, in_ranges y (c_acks c1) -> y = packet_seq p \/ in_ranges y (c_acks c)).
  { intros y Hy. cbn [c1 with_acks c_acks] in Hy. now apply (AcksP.add_pending_ack_sound _ _ _ (ci_acks_wf c Hi)) in Hy. }
  pose proof (Hout bytes p Hin Hp) as Hhon.
  (* the packet is acknowledged without touching the reliable receive channels *)
  assert (Hplain : pkt_done (c_rr c) p ->
            linv sr seqa (c_rr c) (c_acks c1) false (c_sent c) oa ob).
  { intros Hdone. eapply linv_add_ack; [|exact Hsound|exact L]. exists bytes, p. auto. }
  assert (HD : forall r, linv sr seqa (c_rr (disconnect_with c1 r)) (c_acks (disconnect_with c1 r))
                              (is_disconnected (disconnect_with c1 r)) (c_sent (disconnect_with c1 r)) oa ob).
  { intros r. destruct (disconnect_with_fields c1 r) as (_ & _ & A3 & _ & A5 & A6 & _). rewrite A3, A5, A6.
    rewrite DisconnectP.disconnect_with_is_disconnected. cbn [c1 with_acks c_rr c_sent]. now apply linv_dead with (acks := c_acks c). }
  (* one reliable receive channel executes the events of the packet *)
  assert (Hexec : forall ch r r', pkt_rel_ch p = Some ch -> sm_find ch (c_rr c) = Some r ->
            (forall outs, rr_exec (log_get sent ch) r (pkt_evs p) outs = (r', outs, false)) ->
            linv sr seqa (sm_insert ch r' (c_rr c)) (c_acks c1) false (c_sent c) oa ob).
  { intros ch r r' Hch Hr Hex.
    destruct (honest_live sent p ch Hhon Hch) as [_ Hok].
    pose proof (Hrcv ch) as Hre. rewrite Hr in Hre. destruct Hre as (o & _ & Hre).
    destruct (rr_refines_hcore _ _ _ _ Hre) as (outs & H & _).
    destruct (exec_keeps_done (log_get sent ch) (pkt_evs p) r outs r' outs Hok H (Hex outs)) as (_ & M1 & M2).
    eapply linv_add_ack; [|exact Hsound|eapply linv_rr; eauto].
    exists bytes, p. split; [exact Hin|]. split; [exact Hp|]. split; [reflexivity|]. unfold pkt_done. rewrite Hch.
    intros r0. rewrite sm_find_insert_same. intros [= <-]. rewrite Forall_forall. exact M2. }
  destruct p as [sq ch ms|sq ch ms|sq ch sl|sq ch sl|sq rs]; cbn [process_parsed pkt_honest] in *;
    change (c_rr c1) with (c_rr c) in E; change (c_ru c1) with (c_ru c) in E.
  - destruct (sm_find ch (c_rr c)) as [r|] eqn:Hr; [|injection E as <-; apply HD].
    destruct (process_rel_msgs r ms) as [r'| |] eqn:Epm; [|injection E as <-; apply HD|discriminate].
    injection E as <-. cbn [with_rr c_rr c_acks c_sent]. change (c_rr c1) with (c_rr c). change (c_sent c1) with (c_sent c).
    change (is_disconnected (with_rr c1 (sm_insert ch r' (c_rr c)))) with (is_disconnected c). rewrite Hd.
    apply (Hexec ch r r'); auto. intros outs. apply process_rel_msgs_exec; auto.
  - assert (L1 : linv sr seqa (c_rr c) (c_acks c1) false (c_sent c) oa ob) by (apply Hplain; exact I).
    destruct (sm_find ch (c_ru c)) as [r|] eqn:Hr; [|injection E as <-; apply HD].
    injection E as <-. cbn [with_ru c_rr c_acks c_sent]. change (c_rr c1) with (c_rr c). change (c_sent c1) with (c_sent c).
    change (is_disconnected (with_ru c1 (sm_insert ch (process_unrel_msgs r ms) (c_ru c)))) with (is_disconnected c).
    rewrite Hd. exact L1.
  - destruct (sm_find ch (c_rr c)) as [r|] eqn:Hr; [|injection E as <-; apply HD].
    destruct (rr_process_slice r sl) as [r'| |] eqn:Eps; [|injection E as <-; apply HD|discriminate].
    injection E as <-. cbn [with_rr c_rr c_acks c_sent]. change (c_rr c1) with (c_rr c). change (c_sent c1) with (c_sent c).
    change (is_disconnected (with_rr c1 (sm_insert ch r' (c_rr c)))) with (is_disconnected c). rewrite Hd.
    apply (Hexec ch r r'); auto. intros outs. cbn [pkt_evs].
    now destruct (process_slice_exec (log_get sent ch) sl r r' outs Hhon Eps).
  - assert (L1 : linv sr seqa (c_rr c) (c_acks c1) false (c_sent c) oa ob) by (apply Hplain; exact I).
    destruct (sm_find ch (c_ru c)) as [r|] eqn:Hr; [|injection E as <-; apply HD].
    destruct (ru_process_slice r sl (c_now c1)) as [r'| |] eqn:Eps; [|injection E as <-; apply HD|discriminate].
    injection E as <-. cbn [with_ru c_rr c_acks c_sent]. change (c_rr c1) with (c_rr c). change (c_sent c1) with (c_sent c).
    change (is_disconnected (with_ru c1 (sm_insert ch r' (c_ru c)))) with (is_disconnected c).
    rewrite Hd. exact L1.
  - assert (L1 : linv sr seqa (c_rr c) (c_acks c1) false (c_sent c) oa ob) by (apply Hplain; exact I).
    destruct (process_ack_spec c1 sq rs Hi1 (packet_wf_ack_ranges _ _ Hwf))
      as (c2 & l & E2 & _ & Hfr & _ & Hsent & Hacks & _).
    cbn [process_parsed] in E2. rewrite E2 in E. injection E as <-.
    destruct Hfr as (_ & _ & _ & _ & _ & F6 & _ & F8).
    assert (Hd2 : is_disconnected c2 = false) by (unfold is_disconnected in *; rewrite F8; exact Hd).
    rewrite F6, Hd2. cbn [c1 with_acks c_rr]. eapply linv_sub; [| |exact L1].
    + intros _. split; [reflexivity|exact Hacks].
    + exact Hsent.
Qed.

(* ================================================================== *)
(* the sender processes an Ack packet of the receiver *)

(* what a sent-packet record claims to have carried has arrived *)
Definition info_done (rr : list (N * recv_rel)) (info : sent_info) : Prop :=
  match info with
  | SIReliableMessages ch ids => forall r, sm_find ch rr = Some r -> Forall (fun id => rr_seen r id = true) ids
  | SIReliableSlice ch id idx => forall r, sm_find ch rr = Some r -> ev_done r (RSlice id idx)
  | _ => True
  end.

Lemma pkt_done_info rr p : pkt_done rr p -> info_done rr (pkt_info p).
Proof.
  destruct p as [sq ch ms|sq ch ms|sq ch sl|sq ch sl|sq rs]; cbn [pkt_info info_done]; auto; unfold pkt_done;
    cbn [pkt_rel_ch pkt_evs]; intros H r Hr; specialize (H r Hr).
  - rewrite Forall_map in *. exact H.
  - now inversion H.
Qed.

Lemma linv_ack_step sr sr' now seqa rr acks dead recsb oa ob sent got ordf info :
  Forall (fun e : N * send_rel => sr_inv now (snd e)) sr ->
  sr_acked sr sr' info -> info_done rr info ->
  sender_ok sr sent -> receiver_ok ordf rr sent got ->
  linv sr seqa rr acks dead recsb oa ob -> linv sr' seqa rr acks dead recsb oa ob.
Proof.
  intros Hinv Hack Hdone Hso Hrcv [L1 L2 L3 L4]. constructor; auto.
  intros ch sa' r Hf' Hr. specialize (Hack ch). destruct (sm_find ch sr) as [s|] eqn:Es; [|congruence].
  destruct Hack as (s' & E' & Hnx & Hk). rewrite Hf' in E'. injection E' as <-.
  destruct (L3 ch s r Es Hr) as [A B]. destruct (Hso ch s Es) as [Hnext Hmsgs].
  pose proof (Forall_sm_find _ _ _ _ Hinv Es) as Hsi. cbn [snd] in Hsi.
  assert (Hnew : forall id idx, info = SIReliableSlice ch id idx -> ev_done r (RSlice id idx)).
  { intros id idx ->. cbn [info_done] in Hdone. auto. }
  split.
  - intros id Hid Hkn. destruct (Hk id) as (_ & K2 & _).
    destruct (kind_of s id) as [k|] eqn:Eks; [|apply A; [lia|exact Eks]].
    assert (Hrel : released_by s ch id info) by (apply K2; [discriminate|exact Hkn]).
    destruct info as [|c ids|c i0 idx|l]; cbn [released_by] in Hrel; try contradiction.
    + destruct Hrel as [-> Hin]. cbn [info_done] in Hdone. specialize (Hdone r Hr).
      rewrite Forall_forall in Hdone. auto.
    + destruct Hrel as (-> & -> & num & Hknum & Hall).
      unfold kind_of in Hknum. destruct (sm_find id (sr_unacked s)) as [[m0 l0|m0 num0 na nx ak ls]|] eqn:Eu; try discriminate.
      injection Hknum as ->. destruct (SendRelP.sr_inv_find _ _ _ _ Hsi Eu) as (_ & Hwf & _).
      destruct Hwf as (W1 & W2 & _). specialize (Hmsgs id _ Eu). cbn [unacked_msg] in Hmsgs.
      pose proof (Hrcv ch) as Hre. rewrite Hr in Hre. destruct Hre as (o & _ & Hre).
      destruct (rr_refines_hcore _ _ _ _ Hre) as (outs & H & _).
      apply (all_slices_seen (log_get sent ch) r outs id m0 H Hmsgs W1).
      intros j Hj. destruct (N.eq_dec j idx) as [->|Hne]; [now apply Hnew|].
      apply B. apply Hall; [lia|exact Hne].
  - intros id idx Hidx. destruct (Hk id) as (_ & _ & K3).
    destruct (K3 idx Hidx) as [Hold|Hn]; [now apply B|now apply Hnew].
Qed.

Lemma linv_apply_acks seqa rr acks dead recsb oa ob sent got ordf dlv seqs : forall c c', conn_inv c -> NoDup seqs ->
  Forall (fun s => exists t info, sm_find s (c_sent c) = Some (t, info) /\
                                  rec_delivered oa dlv sent info /\ info_done rr info) seqs ->
  apply_acks c seqs = Ok c' ->
  sender_ok (c_sr c) sent -> release_ok (c_sr c) sent oa dlv -> receiver_ok ordf rr sent got ->
  linv (c_sr c) seqa rr acks dead recsb oa ob -> linv (c_sr c') seqa rr acks dead recsb oa ob.
Proof.
  induction seqs as [|seq t IH]; intros c c' Hi Hnd Hall E D1 D6 Hrcv L; cbn [apply_acks] in E.
  - injection E as <-. exact L.
  - inversion Hnd as [|? ? Hnotin Hnd']; subst. inversion Hall as [|? ? (t0 & info & Hf & Hdel & Hdone) Hall']; subst.
    destruct (apply_ack_fine c seq t0 info Hi Hf) as (c1 & E1 & Hi1 & Hsent1 & Hack1).
    rewrite E1 in E. cbn [bind] in E.
    assert (Hsr : Forall (fun e : N * send_rel => sr_inv (c_now c) (snd e)) (c_sr c)).
    { eapply Forall_impl; [|exact (ci_sr c Hi)]. intros e [A _]. exact A. }
    destruct (ack_step_pres _ _ _ _ _ _ _ Hsr Hack1 Hdel D1 D6) as [D1' D6'].
    apply (IH c1 c' Hi1 Hnd'); auto.
    + rewrite Forall_forall in *. intros s Hs. destruct (Hall' s Hs) as (ts & is & Hfs & Hds).
      exists ts, is. split; [|exact Hds]. rewrite Hsent1.
      rewrite sm_find_remove_other; [exact Hfs|]. intros ->. contradiction.
    + eapply linv_ack_step; eauto.
Qed.

Lemma linv_deliver_a ordf c bytes c' rr ru acks dead recsb oa ob sent got dlv :
  conn_inv c -> In bytes ob -> (forall p, from_bytes bytes = Ok p -> packet_wf p) ->
  process_packet c bytes = Ok c' ->
  dinv ordf (c_sr c) (c_su c) (c_seq c) (c_sent c) rr ru acks oa ob sent got dlv ->
  linv (c_sr c) (c_seq c) rr acks dead recsb oa ob ->
  linv (c_sr c') (c_seq c') rr acks dead recsb oa ob.
Proof.
  intros Hi Hin Hwfp E [D1 D2 D3 D4 D5 D6 D7 D8 D9 D10] L.
  destruct (process_packet_cases c bytes) as [(_ & E0)|[(_ & e & _ & E0)|(Hd & p & Hp & E0)]].
  - rewrite E0 in E. injection E as <-. exact L.
  - rewrite E0 in E. injection E as <-.
    destruct (disconnect_with_fields c (RPacketDeserialization e)) as (A1 & _ & _ & _ & _ & _ & A7 & _).
    rewrite A1, A7. exact L.
  - pose proof (Hwfp p Hp) as Hwf. rewrite E0 in E. clear E0.
    set (c1 := with_acks c (add_pending_ack (c_acks c) (packet_seq p))) in *.
    assert (Hi1 : conn_inv c1) by (apply inv_add_pending_ack; [exact Hi|now apply packet_wf_seq]).
    destruct (is_ack p) eqn:Hack.
    + destruct p as [| | | |sq rs]; try discriminate.
      destruct (process_ack_spec c1 sq rs Hi1 (packet_wf_ack_ranges _ _ Hwf))
        as (c2 & l & E2 & _ & Hfr & _ & _ & _ & _).
      pose proof E as E3. rewrite E2 in E3. injection E3 as <-.
      destruct Hfr as (F1 & _). rewrite F1. cbn [c1 with_acks c_seq].
      cbn [process_parsed] in E.
      destruct (collect_new_acks_spec (c_sent c1) (asc_NoDup _ (ci_sent_sorted c1 Hi1)) rs 0
                  (packet_wf_ack_ranges _ _ Hwf)) as (l' & E' & Hnd & Hl').
      rewrite E' in E. cbn [bind] in E.
      assert (Hall : Forall (fun s => exists t info, sm_find s (c_sent c1) = Some (t, info) /\
                                       rec_delivered oa dlv sent info /\ info_done rr info) l').
      { rewrite Forall_forall. intros s Hs. apply Hl' in Hs. destruct Hs as [Hmem Hrange].
        apply sm_mem_in in Hmem. destruct (sm_mem_find _ _ Hmem) as ([t info] & Hf).
        exists t, info. split; [exact Hf|]. split.
        - destruct D4 as [_ D4b]. destruct (D4b bytes sq rs Hin Hp s Hrange) as (i & b & p & Hi0 & Hn & Hpb & Hseq).
          assert (Hb : In b oa) by (eapply nth_error_In; eauto).
          destruct (D5 b p Hb Hpb) as [_ Hrec]. rewrite Hseq in Hrec.
          exists i, b, p. split; [exact Hi0|]. split; [exact Hn|]. split; [exact Hpb|].
          split; [symmetry; eapply Hrec; exact Hf|eauto].
        - destruct (li_ackpk _ _ _ _ _ _ _ _ L bytes sq rs Hin Hp s Hrange) as (b & p & Hb & Hpb & Hseq & Hdone).
          destruct (D5 b p Hb Hpb) as [_ Hrec]. rewrite Hseq in Hrec.
          rewrite (Hrec t info Hf). now apply pkt_done_info. }
      change (c_sr c) with (c_sr c1) in L.
      exact (linv_apply_acks _ _ _ _ _ _ _ _ _ _ _ l' c1 c2 Hi1 Hnd Hall E D1 D6 D3 L).
    + destruct (process_data_spec c1 p Hi1 Hwf Hack) as (c2 & E2 & _ & Hfr).
      rewrite E in E2. injection E2 as <-.
      destruct Hfr as (F1 & _ & _ & _ & F5 & _). rewrite F1, F5. exact L.
Qed.

(* ================================================================== *)
(* one system step keeps the liveness invariant *)

Lemma acks_below_seq ordf sr su seq recs rr ru acks oa ob sent got dlv :
  dinv ordf sr su seq recs rr ru acks oa ob sent got dlv -> forall x, in_ranges x acks -> x < seq.
Proof.
  intros D x Hx. destruct (di_acks _ _ _ _ _ _ _ _ _ _ _ _ _ D) as [A _].
  destruct (A x Hx) as (i & b & p & _ & Hn & Hp & <-).
  destruct (di_track _ _ _ _ _ _ _ _ _ _ _ _ _ D b p (nth_error_In _ _ Hn) Hp) as [Hlt _]. exact Hlt.
Qed.

Lemma live_inv_step cfg_ab cfg_ba s o s' :
  sys_inv cfg_ab cfg_ba s -> live_inv s -> sys_step s o = Ok s' -> live_inv s'.
Proof.
  intros ([Ha Hb Hua Hub Hwa Hwb] & D & _) [L Ho] E. unfold live_inv, dir_inv in *.
  destruct o as [x op|x i]; cbn [sys_step] in E.
  - destruct (is_process op) eqn:Hnp; [injection E as <-; auto|].
    destruct x; cbn [conn_of] in E.
    + destruct (cstep (ra s) op) as [[c' out]| |] eqn:Ec; cbn [bind] in E; try discriminate.
      injection E as <-. cbn [upd_side ra rb out_a out_b]. split.
      * exact (linv_sender_api _ _ _ _ _ _ _ _ _ _ Ha Hua Hnp Ec L).
      * destruct (cstep_api_safe _ _ _ _ Ha Hnp Ec) as [_ Hsc].
        apply (order_inv_keep (ra s) c'); [eapply cstep_order; eauto|exact Hsc|exact Ho].
    + destruct (cstep (rb s) op) as [[c' out]| |] eqn:Ec; cbn [bind] in E; try discriminate.
      injection E as <-. cbn [upd_side ra rb out_a out_b]. split; [|exact Ho].
      eapply (linv_receiver_api (rb s) op c' out); eauto.
      * exact (di_sender _ _ _ _ _ _ _ _ _ _ _ _ _ D).
      * exact (di_out _ _ _ _ _ _ _ _ _ _ _ _ _ D).
      * exact (di_receiver _ _ _ _ _ _ _ _ _ _ _ _ _ D).
      * eapply acks_below_seq; eauto.
  - destruct x.
    + destruct (nth_error (out_b s) i) as [bytes|] eqn:En; [|injection E as <-; auto].
      destruct (process_packet (ra s) bytes) as [c'| |] eqn:Ep; cbn [bind] in E; try discriminate.
      injection E as <-. cbn [ra rb out_a out_b].
      assert (Hin : In bytes (out_b s)) by (eapply nth_error_In; eauto).
      assert (Hwf : forall p, from_bytes bytes = Ok p -> packet_wf p) by (intros p Hp; eapply Hwb; eauto).
      split.
      * exact (linv_deliver_a (ordf_of cfg_ab) (ra s) bytes c' _ _ _ _ _ _ _ _ _ _ Ha Hin Hwf Ep D L).
      * destruct (process_packet_wf_safe (ra s) bytes Ha Hwf) as (c2 & E2 & _ & Hsc).
        rewrite Ep in E2. injection E2 as <-.
        apply (order_inv_keep (ra s) c'); [eapply process_packet_order; eauto|exact Hsc|exact Ho].
    + destruct (nth_error (out_a s) i) as [bytes|] eqn:En; [|injection E as <-; auto].
      destruct (process_packet (rb s) bytes) as [c'| |] eqn:Ep; cbn [bind] in E; try discriminate.
      injection E as <-. cbn [ra rb out_a out_b]. split; [|exact Ho].
      assert (Hin : In bytes (out_a s)) by (eapply nth_error_In; eauto).
      destruct (process_packet_cases (rb s) bytes) as [(Hd & E0)|[(Hd & e & _ & E0)|(Hd & p & Hp & E0)]].
      * rewrite E0 in Ep. injection Ep as <-. exact L.
      * rewrite E0 in Ep. injection Ep as <-.
        destruct (disconnect_with_fields (rb s) (RPacketDeserialization e)) as (_ & _ & A3 & _ & A5 & A6 & _).
        rewrite A3, A5, A6, DisconnectP.disconnect_with_is_disconnected. rewrite Hd in L. now apply linv_dead with (acks := c_acks (rb s)).
      * rewrite Hd in L. eapply linv_deliver; eauto.
        -- exact (di_sender _ _ _ _ _ _ _ _ _ _ _ _ _ D).
        -- exact (di_out _ _ _ _ _ _ _ _ _ _ _ _ _ D).
        -- exact (di_receiver _ _ _ _ _ _ _ _ _ _ _ _ _ D).
Qed.

Lemma live_inv_run cfg_ab cfg_ba ops : forall s s',
  sys_inv cfg_ab cfg_ba s -> live_inv s -> sys_run s ops = Ok s' -> live_inv s'.
Proof.
  induction ops as [|o t IH]; intros s s' Hs L E; cbn [sys_run] in E.
  - injection E as <-. exact L.
  - destruct (sys_step s o) as [s1| |] eqn:E1; cbn [bind] in E; try discriminate.
    eapply IH; [| |exact E]; [eapply sys_inv_step; eauto|eapply live_inv_step; eauto].
Qed.

Lemma live_inv_init ba bb cfg_ab cfg_ba s0 :
  cfg_u8 cfg_ab -> cfg_u8 cfg_ba -> sys_init ba bb cfg_ab cfg_ba = Ok s0 -> live_inv s0.
Proof.
  intros Hab Hba E. unfold sys_init in E.
  destruct (conn_new ba cfg_ab cfg_ba) as [a| |] eqn:Ea; cbn [bind] in E; try discriminate.
  destruct (conn_new bb cfg_ba cfg_ab) as [b| |] eqn:Eb; cbn [bind] in E; try discriminate.
  injection E as <-.
  destruct (conn_new_fresh _ _ _ _ Ea Hab) as (Ia & Ua & A1 & _).
  destruct (conn_new_fresh _ _ _ _ Eb Hba) as (Ib & Ub & _ & _ & _ & _ & B5 & B6 & _).
  split; cbn [ra rb out_a out_b]; [|eapply conn_new_order; eauto].
  rewrite B5, B6. constructor.
  - intros _ x [].
  - intros b0 sq rs [].
  - intros ch sa r Hs _. destruct (Forall_sm_find _ _ _ _ A1 Hs) as [A B]. cbn [snd] in A, B. split.
    + intros id Hid. lia.
    + intros id idx. unfold slice_acked. rewrite B. discriminate.
  - intros k t lg [=].
Qed.

(* the liveness invariant holds after every run, whatever the network and the applications do *)
Theorem live_inv_holds : forall ba bb cfg_ab cfg_ba s0 ops s,
  cfg_u8 cfg_ab -> cfg_u8 cfg_ba ->
  sys_init ba bb cfg_ab cfg_ba = Ok s0 -> sys_run s0 ops = Ok s -> live_inv s.
Proof.
  intros ba bb cfg_ab cfg_ba s0 ops s Hab Hba Hinit Hrun.
  apply (live_inv_run cfg_ab cfg_ba ops s0 s); [exact (sys_init_inv ba bb cfg_ab cfg_ba s0 Hab Hba Hinit)|exact (live_inv_init ba bb cfg_ab cfg_ba s0 Hab Hba Hinit)|exact Hrun].
Qed.


(* ================================================================== *)
(* two more facts about configured channels, kept by every step *)

(* the send order of a connection, for either side *)
Lemma order_inv_step_a s o s' : base_inv s -> sys_step s o = Ok s' -> order_inv (ra s) -> order_inv (ra s').
Proof.
  intros [Ha Hb Hua Hub Hwa Hwb] E Ho. destruct o as [x op|x i]; cbn [sys_step] in E.
  - destruct (is_process op) eqn:Hnp; [injection E as <-; auto|].
    destruct x; cbn [conn_of] in E.
    + destruct (cstep (ra s) op) as [[c' out]| |] eqn:Ec; cbn [bind] in E; try discriminate.
      injection E as <-. cbn [upd_side ra].
      destruct (cstep_api_safe _ _ _ _ Ha Hnp Ec) as [_ Hsc].
      apply (order_inv_keep (ra s) c'); [eapply cstep_order; eauto|exact Hsc|exact Ho].
    + destruct (cstep (rb s) op) as [[c' out]| |] eqn:Ec; cbn [bind] in E; try discriminate.
      injection E as <-. exact Ho.
  - destruct x.
    + destruct (nth_error (out_b s) i) as [bytes|] eqn:En; [|injection E as <-; auto].
      destruct (process_packet (ra s) bytes) as [c'| |] eqn:Ep; cbn [bind] in E; try discriminate.
      injection E as <-. cbn [ra].
      assert (Hwf : forall p, from_bytes bytes = Ok p -> packet_wf p)
        by (intros p Hp; eapply Hwb; [eapply nth_error_In; eauto|exact Hp]).
      destruct (process_packet_wf_safe (ra s) bytes Ha Hwf) as (c2 & E2 & _ & Hsc).
      rewrite Ep in E2. injection E2 as <-.
      apply (order_inv_keep (ra s) c'); [eapply process_packet_order; eauto|exact Hsc|exact Ho].
    + destruct (nth_error (out_a s) i) as [bytes|] eqn:En; [|injection E as <-; auto].
      destruct (process_packet (rb s) bytes) as [c'| |] eqn:Ep; cbn [bind] in E; try discriminate.
      injection E as <-. exact Ho.
Qed.

Lemma order_inv_step_b s o s' : base_inv s -> sys_step s o = Ok s' -> order_inv (rb s) -> order_inv (rb s').
Proof.
  intros Hb E Ho. apply (order_inv_step_a (flip s) (flip_op o) (flip s')); auto using base_inv_flip, sys_step_flip_ok.
Qed.

(* every reliable send channel keeps the resend time it was configured with *)
Definition resend_inv (cfg : list chan_config) (c : conn) : Prop :=
  forall ch s, sm_find ch (c_sr c) = Some s -> In (sr_resend s) (cfg_resends cfg).

Definition same_resend (sr sr' : list (N * send_rel)) : Prop :=
  forall ch s', sm_find ch sr' = Some s' -> exists s, sm_find ch sr = Some s /\ sr_resend s' = sr_resend s.

Lemma same_resend_refl sr : same_resend sr sr.
Proof. intros ch s H. eauto. Qed.

Lemma same_resend_trans a b c : same_resend a b -> same_resend b c -> same_resend a c.
Proof.
  intros H1 H2 ch s Hs. destruct (H2 ch s Hs) as (s1 & Hs1 & E1). destruct (H1 ch s1 Hs1) as (s0 & Hs0 & E0).
  exists s0. split; [exact Hs0|congruence].
Qed.

Lemma same_resend_insert sr ch s s' : sm_find ch sr = Some s -> sr_resend s' = sr_resend s -> same_resend sr (sm_insert ch s' sr).
Proof.
  intros Hs E c0 s0. rewrite sm_find_insert. destruct (N.eqb_spec c0 ch) as [->|Hne]; [|eauto].
  intros [= <-]. eauto.
Qed.

Lemma resend_inv_keep cfg c c' : same_resend (c_sr c) (c_sr c') -> resend_inv cfg c -> resend_inv cfg c'.
Proof. intros H R ch s' Hs'. destruct (H ch s' Hs') as (s & Hs & ->). eauto. Qed.

Lemma ack_ids_config ids : forall s s', ack_ids s ids = Ok s' -> sr_resend s' = sr_resend s.
Proof.
  induction ids as [|id t IH]; intros s s' E; cbn [ack_ids] in E; [now injection E as <-|].
  destruct (sr_ack_message s id) as [s1| |] eqn:E1; cbn [bind] in E; try discriminate.
  destruct (SendRelP.sr_ack_message_config _ _ _ E1) as (_ & R & _). rewrite (IH _ _ E). exact R.
Qed.

Lemma apply_ack_resend c x c' : apply_ack c x = Ok c' -> same_resend (c_sr c) (c_sr c').
Proof.
  unfold apply_ack. destruct (sm_find x (c_sent c)) as [[t info]|]; [|discriminate].
  destruct info as [|ch ids|ch id idx|lg]; cbn [with_sent c_sr].
  - intros [= <-]. apply same_resend_refl.
  - destruct (sm_find ch (c_sr c)) as [s|] eqn:Hs; [|discriminate].
    destruct (ack_ids s ids) as [s'| |] eqn:Ea; cbn [lift bind]; try discriminate. intros [= <-].
    cbn [with_sr c_sr]. apply (same_resend_insert _ _ s); [exact Hs|now apply (ack_ids_config ids)].
  - destruct (sm_find ch (c_sr c)) as [s|] eqn:Hs; [|discriminate].
    destruct (sr_ack_slice s id idx) as [s'| |] eqn:Ea; cbn [lift bind]; try discriminate. intros [= <-].
    cbn [with_sr c_sr]. apply (same_resend_insert _ _ s); [exact Hs|].
    now destruct (SendRelP.sr_ack_slice_config _ _ _ _ Ea) as (_ & R & _).
  - intros [= <-]. apply same_resend_refl.
Qed.

Lemma apply_acks_resend seqs : forall c c', apply_acks c seqs = Ok c' -> same_resend (c_sr c) (c_sr c').
Proof.
  induction seqs as [|x t IH]; intros c c' E; cbn [apply_acks] in E; [injection E as <-; apply same_resend_refl|].
  destruct (apply_ack c x) as [c1| |] eqn:E1; cbn [bind] in E; try discriminate.
  eapply same_resend_trans; [eapply apply_ack_resend; eauto|eauto].
Qed.

Lemma disconnect_with_sr c r : c_sr (disconnect_with c r) = c_sr c.
Proof. now destruct (disconnect_with_fields c r) as (A & _). Qed.

Lemma process_packet_resend c bytes c' : process_packet c bytes = Ok c' -> same_resend (c_sr c) (c_sr c').
Proof.
  intros E.
  destruct (process_packet_cases c bytes) as [(_ & E0)|[(_ & e & _ & E0)|(_ & p & Hp & E0)]]; rewrite E0 in E.
  - injection E as <-. apply same_resend_refl.
  - injection E as <-. rewrite disconnect_with_sr. apply same_resend_refl.
  - set (c1 := with_acks c (add_pending_ack (c_acks c) (packet_seq p))) in *.
    change (c_sr c) with (c_sr c1). destruct (is_ack p) eqn:Ha.
    + destruct p as [| | | |sq rs]; try discriminate. cbn [process_parsed] in E.
      destruct (collect_new_acks rs (c_sent c1)) as [l| |]; cbn [bind] in E; try discriminate.
      eapply apply_acks_resend; eauto.
    + destruct (process_data_frame c1 p c' Ha E) as (_ & _ & _ & A & _). rewrite A. apply same_resend_refl.
Qed.

Lemma gather_resend ord c avail c1 av pk : gather_rel ord c avail c1 av pk -> conn_inv c -> same_resend (c_sr c) (c_sr c1).
Proof.
  induction 1 as [c avail|ch t c avail s s' pk seq' avail1 c2 avail2 pk2 Hs Eg Hrel IH
                         |ch t c avail s s' pk seq' avail1 c2 avail2 pk2 Hs Eg Hrel IH]; intros Hi.
  - apply same_resend_refl.
  - destruct (gather_step_rel c ch s avail s' pk seq' avail1 Hi Hs Eg) as (Hi' & _ & _ & _ & _ & _ & _ & (_ & R & _) & _).
    eapply same_resend_trans; [|apply IH; exact Hi']. cbn [with_seq with_sr c_sr]. now apply (same_resend_insert _ _ s).
  - destruct (gather_step_unrel c ch s avail s' pk seq' avail1 Hi Hs Eg) as (Hi' & _).
    apply IH. exact Hi'.
Qed.

Lemma cstep_resend c o c' out : conn_inv c -> is_process o = false -> cstep c o = Ok (c', out) -> same_resend (c_sr c) (c_sr c').
Proof.
  intros Hi Hnp E. destruct o as [ch m|ch|dt|b| | | | |]; try discriminate; cbn [cstep] in E.
  - destruct (send_message c ch m) as [c1| |] eqn:E1; cbn [bind] in E; try discriminate. injection E as <- _.
    unfold send_message in E1. destruct (is_disconnected c); [injection E1 as <-; apply same_resend_refl|].
    destruct (sm_find ch (c_sr c)) as [s|] eqn:Hs.
    + destruct (sr_send s m) as [s'| |] eqn:Es; try discriminate; injection E1 as <-.
      * cbn [with_sr c_sr]. apply (same_resend_insert _ _ s); [exact Hs|].
        now destruct (SendRelP.sr_send_config _ _ _ Es) as (_ & R & _).
      * rewrite disconnect_with_sr. apply same_resend_refl.
    + destruct (sm_find ch (c_su c)); [|discriminate]. injection E1 as <-. apply same_resend_refl.
  - destruct (receive_message c ch) as [[c1 mo]| |] eqn:E1; cbn [bind] in E; try discriminate. injection E as <- _.
    destruct (channel_frame_receive c ch c1 mo E1) as (_ & A & _). rewrite A. apply same_resend_refl.
  - destruct (update c dt) as [c1| |] eqn:E1; cbn [bind] in E; try discriminate. injection E as <- _.
    destruct (update_unfold c dt c1 E1) as (ru1 & sent1 & _ & _ & ->). apply same_resend_refl.
  - destruct (get_packets_to_send c) as [[c1 p]| |] eqn:E1; cbn [bind] in E; try discriminate. injection E as <- _.
    destruct (flush_shape c c1 p Hi E1) as [(_ & -> & _)|(_ & c2 & av & pk & Hrel & -> & _)]; [apply same_resend_refl|].
    destruct (flush_state_frame c2 pk) as (G1 & _). rewrite G1. eapply gather_resend; eauto.
  - injection E as <- _. unfold set_connected. destruct (is_disconnected c); apply same_resend_refl.
  - injection E as <- _. unfold set_connecting. destruct (is_disconnected c); apply same_resend_refl.
  - injection E as <- _. unfold disconnect. rewrite disconnect_with_sr. apply same_resend_refl.
  - injection E as <- _. unfold disconnect_transport. rewrite disconnect_with_sr. apply same_resend_refl.
Qed.

Lemma resend_inv_step cfg s o s' : base_inv s -> sys_step s o = Ok s' -> resend_inv cfg (ra s) -> resend_inv cfg (ra s').
Proof.
  intros [Ha Hb Hua Hub Hwa Hwb] E R. destruct o as [x op|x i]; cbn [sys_step] in E.
  - destruct (is_process op) eqn:Hnp; [injection E as <-; auto|].
    destruct x; cbn [conn_of] in E.
    + destruct (cstep (ra s) op) as [[c' out]| |] eqn:Ec; cbn [bind] in E; try discriminate.
      injection E as <-. cbn [upd_side ra]. apply (resend_inv_keep cfg (ra s) c'); [eapply cstep_resend; eauto|exact R].
    + destruct (cstep (rb s) op) as [[c' out]| |] eqn:Ec; cbn [bind] in E; try discriminate.
      injection E as <-. exact R.
  - destruct x.
    + destruct (nth_error (out_b s) i) as [bytes|] eqn:En; [|injection E as <-; auto].
      destruct (process_packet (ra s) bytes) as [c'| |] eqn:Ep; cbn [bind] in E; try discriminate.
      injection E as <-. cbn [ra]. apply (resend_inv_keep cfg (ra s) c'); [eapply process_packet_resend; eauto|exact R].
    + destruct (nth_error (out_a s) i) as [bytes|] eqn:En; [|injection E as <-; auto].
      destruct (process_packet (rb s) bytes) as [c'| |] eqn:Ep; cbn [bind] in E; try discriminate.
      injection E as <-. exact R.
Qed.

Lemma build_send_resend cfgs : forall su sr ord su' sr' ord' (all : list N),
  build_send cfgs su sr ord = Ok (su', sr', ord') ->
  (forall ch s, sm_find ch sr = Some s -> In (sr_resend s) all) -> incl (cfg_resends cfgs) all ->
  forall ch s, sm_find ch sr' = Some s -> In (sr_resend s) all.
Proof.
  induction cfgs as [|cfg t IH]; intros su sr ord su' sr' ord' all E Hsr Hincl; cbn [build_send] in E.
  - injection E as _ <- _. exact Hsr.
  - unfold cfg_resends in Hincl. cbn [flat_map] in Hincl. fold (cfg_resends t) in Hincl.
    assert (Hrel : forall rt, In rt all -> incl (cfg_resends t) all ->
      build_send t su (sm_insert (cc_id cfg) (send_rel_new (cc_id cfg) rt (cc_max cfg)) sr)
                 (ord ++ [(true, cc_id cfg)]) = Ok (su', sr', ord') ->
      forall ch s, sm_find ch sr' = Some s -> In (sr_resend s) all).
    { intros rt Hrt Ht E'. eapply IH; [exact E'| |exact Ht].
      intros ch s. rewrite sm_find_insert. destruct (N.eqb_spec ch (cc_id cfg)); [|apply Hsr].
      intros [= <-]. exact Hrt. }
    destruct (cc_type cfg) as [|rt|rt].
    + destruct (sm_mem (cc_id cfg) su); [discriminate|]. eapply IH; eauto.
    + destruct (sm_mem (cc_id cfg) sr); [discriminate|]. eapply Hrel; [| |exact E].
      * apply Hincl. now left.
      * intros x Hx. apply Hincl. now right.
    + destruct (sm_mem (cc_id cfg) sr); [discriminate|]. eapply Hrel; [| |exact E].
      * apply Hincl. now left.
      * intros x Hx. apply Hincl. now right.
Qed.

Lemma conn_new_resend budget scfg rcfg c : conn_new budget scfg rcfg = Ok c -> resend_inv scfg c.
Proof.
  unfold conn_new. intros E.
  destruct (build_send scfg [] [] []) as [[[su sr] ord]| |] eqn:Es; cbn [bind] in E; try discriminate.
  destruct (build_recv rcfg [] []) as [[ru rr]| |]; cbn [bind] in E; try discriminate.
  injection E as <-. unfold resend_inv. cbn [c_sr].
  eapply build_send_resend; [exact Es| |apply incl_refl]. intros ch s [=].
Qed.

(* every configured reliable channel has its send channel *)
Definition chan_inv (cfg : list chan_config) (c : conn) : Prop :=
  forall ch, ordf_of cfg ch <> None -> sm_mem ch (c_sr c) = true.

Lemma same_channels_step_a s o s' : base_inv s -> sys_step s o = Ok s' -> same_channels (ra s) (ra s').
Proof.
  intros [Ha Hb Hua Hub Hwa Hwb] E. destruct o as [x op|x i]; cbn [sys_step] in E.
  - destruct (is_process op) eqn:Hnp; [injection E as <-; apply same_channels_refl|].
    destruct x; cbn [conn_of] in E.
    + destruct (cstep (ra s) op) as [[c' out]| |] eqn:Ec; cbn [bind] in E; try discriminate.
      injection E as <-. cbn [upd_side ra]. now destruct (cstep_api_safe _ _ _ _ Ha Hnp Ec).
    + destruct (cstep (rb s) op) as [[c' out]| |] eqn:Ec; cbn [bind] in E; try discriminate.
      injection E as <-. apply same_channels_refl.
  - destruct x.
    + destruct (nth_error (out_b s) i) as [bytes|] eqn:En; [|injection E as <-; apply same_channels_refl].
      destruct (process_packet (ra s) bytes) as [c'| |] eqn:Ep; cbn [bind] in E; try discriminate.
      injection E as <-. cbn [ra].
      assert (Hwf : forall p, from_bytes bytes = Ok p -> packet_wf p)
        by (intros p Hp; eapply Hwb; [eapply nth_error_In; eauto|exact Hp]).
      destruct (process_packet_wf_safe (ra s) bytes Ha Hwf) as (c2 & E2 & _ & Hsc).
      rewrite Ep in E2. injection E2 as <-. exact Hsc.
    + destruct (nth_error (out_a s) i) as [bytes|] eqn:En; [|injection E as <-; apply same_channels_refl].
      destruct (process_packet (rb s) bytes) as [c'| |] eqn:Ep; cbn [bind] in E; try discriminate.
      injection E as <-. apply same_channels_refl.
Qed.

Lemma chan_inv_step cfg s o s' : base_inv s -> sys_step s o = Ok s' -> chan_inv cfg (ra s) -> chan_inv cfg (ra s').
Proof.
  intros Hb E H ch Hch. destruct (same_channels_step_a s o s' Hb E ch) as (A & _). rewrite A. auto.
Qed.

Lemma build_send_chans cfgs : forall su sr ord su' sr' ord',
  build_send cfgs su sr ord = Ok (su', sr', ord') ->
  forall ch, ordf_of cfgs ch <> None \/ sm_mem ch sr = true -> sm_mem ch sr' = true.
Proof.
  induction cfgs as [|cfg t IH]; intros su sr ord su' sr' ord' E ch Hch; cbn [build_send] in E.
  - injection E as _ <- _. destruct Hch as [H|H]; [|exact H]. exfalso. apply H. reflexivity.
  - rewrite ordf_of_cons in Hch.
    assert (Hrel : forall rt, is_rel_cfg cfg = true ->
      build_send t su (sm_insert (cc_id cfg) (send_rel_new (cc_id cfg) rt (cc_max cfg)) sr)
                 (ord ++ [(true, cc_id cfg)]) = Ok (su', sr', ord') -> sm_mem ch sr' = true).
    { intros rt Hr E'. eapply IH; [exact E'|]. rewrite sm_mem_insert.
      destruct (N.eqb_spec (cc_id cfg) ch) as [->|Hne].
      - right. rewrite N.eqb_refl. reflexivity.
      - cbn [andb] in Hch. destruct Hch as [H|H]; [now left|right]. rewrite H. apply orb_true_r. }
    destruct (cc_type cfg) as [|rt|rt] eqn:Et.
    + destruct (sm_mem (cc_id cfg) su); [discriminate|]. eapply IH; [exact E|].
      unfold is_rel_cfg in Hch. rewrite Et, andb_false_r in Hch. exact Hch.
    + destruct (sm_mem (cc_id cfg) sr); [discriminate|]. apply (Hrel rt); [unfold is_rel_cfg; now rewrite Et|exact E].
    + destruct (sm_mem (cc_id cfg) sr); [discriminate|]. apply (Hrel rt); [unfold is_rel_cfg; now rewrite Et|exact E].
Qed.

Lemma conn_new_chans budget scfg rcfg c : conn_new budget scfg rcfg = Ok c -> chan_inv scfg c.
Proof.
  unfold conn_new. intros E.
  destruct (build_send scfg [] [] []) as [[[su sr] ord]| |] eqn:Es; cbn [bind] in E; try discriminate.
  destruct (build_recv rcfg [] []) as [[ru rr]| |]; cbn [bind] in E; try discriminate.
  injection E as <-. intros ch Hch. cbn [c_sr]. eapply build_send_chans; [exact Es|]. now left.
Qed.

(* ================================================================== *)
(* everything the liveness proofs use, in one bundle *)

Definition tick_inv (cfg_ab cfg_ba : list chan_config) (s : rsys) : Prop :=
  sys_inv cfg_ab cfg_ba s /\ live_inv s /\ order_inv (rb s) /\ resend_inv cfg_ab (ra s) /\ chan_inv cfg_ab (ra s).

Lemma tick_inv_step cfg_ab cfg_ba s o s' : tick_inv cfg_ab cfg_ba s -> sys_step s o = Ok s' -> tick_inv cfg_ab cfg_ba s'.
Proof.
  intros (Hs & Hl & Ho & Hr & Hc) E. pose proof Hs as (Hb & _).
  split; [eapply sys_inv_step; eauto|]. split; [eapply live_inv_step; eauto|].
  split; [eapply order_inv_step_b; eauto|]. split; [eapply resend_inv_step; eauto|eapply chan_inv_step; eauto].
Qed.

Lemma tick_inv_run cfg_ab cfg_ba ops : forall s s',
  tick_inv cfg_ab cfg_ba s -> sys_run s ops = Ok s' -> tick_inv cfg_ab cfg_ba s'.
Proof.
  induction ops as [|o t IH]; intros s s' Hs E; cbn [sys_run] in E.
  - injection E as <-. exact Hs.
  - destruct (sys_step s o) as [s1| |] eqn:E1; cbn [bind] in E; try discriminate.
    eapply IH; [|exact E]. eapply tick_inv_step; eauto.
Qed.

Theorem tick_inv_holds : forall ba bb cfg_ab cfg_ba s0 ops s,
  cfg_u8 cfg_ab -> cfg_u8 cfg_ba ->
  sys_init ba bb cfg_ab cfg_ba = Ok s0 -> sys_run s0 ops = Ok s -> tick_inv cfg_ab cfg_ba s.
Proof.
  intros ba bb cfg_ab cfg_ba s0 ops s Hab Hba Hinit Hrun.
  apply (tick_inv_run cfg_ab cfg_ba ops s0 s); [|exact Hrun].
  split; [exact (sys_init_inv ba bb cfg_ab cfg_ba s0 Hab Hba Hinit)|].
  split; [exact (live_inv_init ba bb cfg_ab cfg_ba s0 Hab Hba Hinit)|].
  unfold sys_init in Hinit.
  destruct (conn_new ba cfg_ab cfg_ba) as [a| |] eqn:Ea; cbn [bind] in Hinit; try discriminate.
  destruct (conn_new bb cfg_ba cfg_ab) as [b| |] eqn:Eb; cbn [bind] in Hinit; try discriminate.
  injection Hinit as <-. cbn [ra rb]. split; [eapply conn_new_order; eauto|].
  split; [eapply conn_new_resend; eauto|eapply conn_new_chans; eauto].
Qed.

Print Assumptions tick_inv_holds.
