(* TokenP.v - renetcode connect tokens (token.rs): no panics on arbitrary bytes,
   round trips of the address list, of the sealed private part and of the public
   token, and what a private part that opens is bound to. *)
From Coq Require Import NArith ZArith List Bool Lia ZifyBool ZifyN ZifyNat.
From RenetV Require Import Base Consts Aead NPacket Token NetSpec AeadP ReplayP NPacketP.
Import ListNotations.
Open Scope N_scope.

Arguments N.add : simpl never.
Arguments N.sub : simpl never.
Arguments N.mul : simpl never.
Arguments N.div : simpl never.
Arguments N.modulo : simpl never.
Arguments N.pow : simpl never.
Arguments N.eqb : simpl never.
Arguments N.ltb : simpl never.
Arguments N.leb : simpl never.

(* ------------------------------------------------------------------ *)
(* helpers                                                             *)
(* ------------------------------------------------------------------ *)

Lemma dropN_add {A} a b (l : list A) : dropN (a + b) l = dropN b (dropN a l).
Proof.
  unfold dropN. rewrite N2Nat.inj_add.
  generalize (N.to_nat a) as x. generalize (N.to_nat b) as y. intros y x. revert l.
  induction x as [|x IH]; intro l; [reflexivity|].
  destruct l as [|h t]; cbn [Nat.add skipn]; [destruct y; reflexivity | apply IH].
Qed.

Lemma addr_none_val : NC_ADDR_NONE = 0.  Proof. reflexivity. Qed.
Lemma addr_v4_val : NC_ADDR_V4 = 1.  Proof. reflexivity. Qed.
Lemma addr_v6_val : NC_ADDR_V6 = 2.  Proof. reflexivity. Qed.

(* i32 as four little-endian bytes *)
Lemma len_i32_bytes z : len (i32_bytes z) = 4.
Proof. apply len_le32. Qed.

Lemma i32_roundtrip z : (-2147483648 <= z < 2147483648)%Z -> i32_of (le_val (i32_bytes z)) = z.
Proof.
  intro H. unfold i32_bytes.
  assert (B : Z.to_N (z mod 4294967296) < 4294967296).
  { pose proof (Z.mod_pos_bound z 4294967296 eq_refl). lia. }
  rewrite le_val_le32 by exact B. unfold i32_of.
  destruct (Z.to_N (z mod 4294967296) <? 2147483648) eqn:E.
  - assert (z mod 4294967296 = z \/ z mod 4294967296 = z + 4294967296)%Z as [M|M].
    { pose proof (Z.mod_pos_bound z 4294967296 eq_refl).
      pose proof (Z.div_mod z 4294967296 ltac:(discriminate)).
      assert (z / 4294967296 = 0 \/ z / 4294967296 = -1)%Z by lia. lia. }
    + rewrite Z2N.id; lia.
    + exfalso. lia.
  - assert (z mod 4294967296 = z \/ z mod 4294967296 = z + 4294967296)%Z as [M|M].
    { pose proof (Z.mod_pos_bound z 4294967296 eq_refl).
      pose proof (Z.div_mod z 4294967296 ltac:(discriminate)).
      assert (z / 4294967296 = 0 \/ z / 4294967296 = -1)%Z by lia. lia. }
    + exfalso. lia.
    + rewrite Z2N.id; lia.
Qed.

Lemma i32_of_range v : v < 4294967296 -> (-2147483648 <= i32_of v < 2147483648)%Z.
Proof. intro H. unfold i32_of. destruct (v <? 2147483648) eqn:E; lia. Qed.

(* ------------------------------------------------------------------ *)
(* T1 (first part): the address reader never panics                    *)
(* ------------------------------------------------------------------ *)

Lemma read_addrs_loop_no_panic : forall fuel src acc, is_panic (read_addrs_loop fuel src acc) = false.
Proof.
  induction fuel as [|f IH]; intros src acc; cbn [read_addrs_loop]; [reflexivity|].
  destruct src as [|ty r]; [reflexivity|].
  destruct (ty =? NC_ADDR_V4).
  { destruct (len r <? 6); [reflexivity | apply IH]. }
  destruct (ty =? NC_ADDR_V6).
  { destruct (len r <? 18); [reflexivity | apply IH]. }
  destruct (ty =? NC_ADDR_NONE); [apply IH | reflexivity].
Qed.

Theorem read_server_addresses_no_panic : forall src, is_panic (read_server_addresses src) = false.
Proof.
  intro src. unfold read_server_addresses.
  destruct (len src <? 4); [reflexivity|]. cbv zeta.
  match goal with |- context [read_addrs_loop ?f ?s ?a] =>
    pose proof (read_addrs_loop_no_panic f s a) as NP; destruct (read_addrs_loop f s a) as [[found rest]|e|site] end;
    [|reflexivity|discriminate].
  cbn [bind]. destruct found; reflexivity.
Qed.

(* ------------------------------------------------------------------ *)
(* T2: address list round trip                                         *)
(* ------------------------------------------------------------------ *)

Lemma read_addrs_loop_v4 f r acc : 6 <= len r ->
  read_addrs_loop (S f) (NC_ADDR_V4 :: r) acc =
  read_addrs_loop f (dropN 6 r) (acc ++ [Some (AddrV4 (takeN 4 r) (le_val (takeN 2 (dropN 4 r))))]).
Proof.
  intro H. cbn [read_addrs_loop]. rewrite N.eqb_refl.
  assert (E : (len r <? 6) = false) by lia. rewrite E. reflexivity.
Qed.

Lemma read_addrs_loop_v6 f r acc : 18 <= len r ->
  read_addrs_loop (S f) (NC_ADDR_V6 :: r) acc =
  read_addrs_loop f (dropN 18 r) (acc ++ [Some (AddrV6 (takeN 16 r) (le_val (takeN 2 (dropN 16 r))))]).
Proof.
  intro H. cbn [read_addrs_loop].
  change (NC_ADDR_V6 =? NC_ADDR_V4) with false. cbv iota. rewrite N.eqb_refl.
  assert (E : (len r <? 18) = false) by lia. rewrite E. reflexivity.
Qed.

Lemma write_addrs_body_app a b : write_addrs_body (a ++ b) = write_addrs_body a ++ write_addrs_body b.
Proof.
  induction a as [|[x|] a IH]; cbn [app write_addrs_body]; [reflexivity| |exact IH].
  rewrite IH, app_assoc. reflexivity.
Qed.

Lemma write_addrs_body_none k : write_addrs_body (repeatN None k) = [].
Proof. induction k; cbn [repeatN write_addrs_body]; auto. Qed.

Lemma write_addrs_body_pad l : write_addrs_body (pad_slots l) = write_addrs_body l.
Proof. unfold pad_slots. rewrite write_addrs_body_app, write_addrs_body_none, app_nil_r. reflexivity. Qed.

Lemma count_some_app {A} (a b : list (option A)) : count_some (a ++ b) = count_some a + count_some b.
Proof. unfold count_some. rewrite filter_app, len_app. reflexivity. Qed.

Lemma count_some_none {A} k : count_some (repeatN (@None A) k) = 0.
Proof. induction k; cbn [repeatN]; [reflexivity|]. unfold count_some in *. cbn [filter]. exact IHk. Qed.

Lemma count_some_map_some {A} (l : list A) : count_some (map Some l) = len l.
Proof.
  unfold count_some. induction l as [|x l IH]; [reflexivity|].
  cbn [map filter]. rewrite !len_cons, IH. reflexivity.
Qed.

Lemma count_some_pad (addrs : list addr) : count_some (pad_slots (map Some addrs)) = len addrs.
Proof. unfold pad_slots. rewrite count_some_app, count_some_none, count_some_map_some. lia. Qed.

Lemma read_addrs_loop_write : forall addrs acc rest,
  Forall addr_wf addrs ->
  read_addrs_loop (length addrs) (write_addrs_body (map Some addrs) ++ rest) acc =
  Ok (acc ++ map Some addrs, rest).
Proof.
  induction addrs as [|a t IH]; intros acc rest F.
  - cbn [length map write_addrs_body app read_addrs_loop]. rewrite app_nil_r. reflexivity.
  - inversion F as [|? ? Ha Ft]; subst.
    cbn [length map write_addrs_body].
    destruct a as [ip port|ip port]; cbn [addr_wf write_addr] in *; destruct Ha as (Hl & Hb & Hp).
    + rewrite <- !app_assoc. cbn [app].
      assert (L : 6 <= len (ip ++ le16 port ++ write_addrs_body (map Some t) ++ rest)).
      { rewrite !len_app, len_le16, Hl. lia. }
      rewrite read_addrs_loop_v4 by exact L.
      change 6 with (4 + 2). rewrite dropN_add.
      rewrite (takeN_app_exact 4) by exact Hl. rewrite (dropN_app_exact 4) by exact Hl.
      rewrite (takeN_app_exact 2) by apply len_le16. rewrite (dropN_app_exact 2) by apply len_le16.
      rewrite le_val_le16 by exact Hp.
      rewrite IH by exact Ft. rewrite <- app_assoc. reflexivity.
    + rewrite <- !app_assoc. cbn [app].
      assert (L : 18 <= len (ip ++ le16 port ++ write_addrs_body (map Some t) ++ rest)).
      { rewrite !len_app, len_le16, Hl. lia. }
      rewrite read_addrs_loop_v6 by exact L.
      change 18 with (16 + 2). rewrite dropN_add.
      rewrite (takeN_app_exact 16) by exact Hl. rewrite (dropN_app_exact 16) by exact Hl.
      rewrite (takeN_app_exact 2) by apply len_le16. rewrite (dropN_app_exact 2) by apply len_le16.
      rewrite le_val_le16 by exact Hp.
      rewrite IH by exact Ft. rewrite <- app_assoc. reflexivity.
Qed.

Theorem addrs_roundtrip : forall l rest, slots_wf l ->
  read_server_addresses (write_server_addresses l ++ rest) = Ok (l, rest).
Proof.
  intros l rest (addrs & -> & H1 & H32 & F).
  unfold write_server_addresses. rewrite count_some_pad, write_addrs_body_pad.
  unfold read_server_addresses. rewrite <- app_assoc.
  assert (E : (len (le32 (len addrs) ++ write_addrs_body (map Some addrs) ++ rest) <? 4) = false).
  { rewrite len_app, len_le32. lia. }
  rewrite E. cbv zeta.
  rewrite (takeN_app_exact 4) by apply len_le32. rewrite (dropN_app_exact 4) by apply len_le32.
  rewrite le_val_le32 by lia.
  assert (E2 : (32 <? len addrs) = false) by lia. rewrite E2.
  unfold len at 1. rewrite Nat2N.id.
  rewrite read_addrs_loop_write by exact F. cbn [bind app].
  destruct addrs as [|a t]; [rewrite len_nil in H1; lia|]. reflexivity.
Qed.

Lemma len_write_server_addresses_ge l : 4 <= len (write_server_addresses l).
Proof. unfold write_server_addresses. rewrite len_app, len_le32. lia. Qed.

(* ------------------------------------------------------------------ *)
(* what the address reader returns is well formed                      *)
(* ------------------------------------------------------------------ *)

Lemma read_addrs_loop_wf : forall fuel src acc found rest,
  bytes_ok src -> read_addrs_loop fuel src acc = Ok (found, rest) ->
  exists addrs, found = acc ++ map Some addrs /\ Forall addr_wf addrs /\
                (length addrs <= fuel)%nat /\ bytes_ok rest.
Proof.
  induction fuel as [|f IH]; intros src acc found rest B H.
  - cbn [read_addrs_loop] in H. injection H as <- <-.
    exists []. rewrite app_nil_r. repeat split; auto.
  - cbn [read_addrs_loop] in H. destruct src as [|ty r]; [discriminate|].
    apply bytes_ok_cons in B. destruct B as [_ B].
    destruct (ty =? NC_ADDR_V4).
    { destruct (len r <? 6) eqn:E; [discriminate|].
      destruct (IH _ _ _ _ (bytes_ok_dropN 6 r B) H) as (addrs & -> & F & L & Br).
      exists (AddrV4 (takeN 4 r) (le_val (takeN 2 (dropN 4 r))) :: addrs).
      rewrite <- app_assoc. split; [reflexivity|]. split; [|split; [cbn [length]; lia | exact Br]].
      constructor; [|exact F]. cbn [addr_wf].
      split; [apply len_takeN_le; lia|]. split; [apply bytes_ok_takeN; exact B|].
      apply le_val_lt_u16.
      - rewrite len_takeN, len_dropN. lia.
      - apply bytes_ok_takeN, bytes_ok_dropN. exact B. }
    destruct (ty =? NC_ADDR_V6).
    { destruct (len r <? 18) eqn:E; [discriminate|].
      destruct (IH _ _ _ _ (bytes_ok_dropN 18 r B) H) as (addrs & -> & F & L & Br).
      exists (AddrV6 (takeN 16 r) (le_val (takeN 2 (dropN 16 r))) :: addrs).
      rewrite <- app_assoc. split; [reflexivity|]. split; [|split; [cbn [length]; lia | exact Br]].
      constructor; [|exact F]. cbn [addr_wf].
      split; [apply len_takeN_le; lia|]. split; [apply bytes_ok_takeN; exact B|].
      apply le_val_lt_u16.
      - rewrite len_takeN, len_dropN. lia.
      - apply bytes_ok_takeN, bytes_ok_dropN. exact B. }
    destruct (ty =? NC_ADDR_NONE); [|discriminate].
    destruct (IH _ _ _ _ B H) as (addrs & -> & F & L & Br).
    exists addrs. repeat split; auto.
Qed.

Theorem read_server_addresses_wf : forall src l rest,
  bytes_ok src -> read_server_addresses src = Ok (l, rest) -> slots_wf l /\ bytes_ok rest.
Proof.
  intros src l rest B H. unfold read_server_addresses in H.
  destruct (len src <? 4); [discriminate|]. cbv zeta in H.
  match type of H with context [read_addrs_loop ?f ?s ?a] =>
    destruct (read_addrs_loop f s a) as [[found rest']|e|site] eqn:R end; try discriminate.
  cbn [bind] in H.
  apply read_addrs_loop_wf in R; [|apply bytes_ok_dropN; exact B].
  destruct R as (addrs & -> & F & L & Br). cbn [app] in H.
  destruct addrs as [|a t]; [discriminate|].
  cbn [map] in H. injection H as <- <-.
  split; [|exact Br].
  exists (a :: t). split; [reflexivity|]. split; [rewrite len_cons; lia|]. split; [|exact F].
  destruct (32 <? le_val (takeN 4 src)) eqn:E; unfold len; lia.
Qed.

(* ------------------------------------------------------------------ *)
(* T1: no panics                                                       *)
(* ------------------------------------------------------------------ *)

Theorem private_read_no_panic : forall src, is_panic (private_read src) = false.
Proof.
  intro src. unfold private_read.
  destruct (len src <? 12); [reflexivity|]. cbv zeta.
  pose proof (read_server_addresses_no_panic (dropN 12 src)) as NP.
  destruct (read_server_addresses (dropN 12 src)) as [[addrs r1]|e|site]; [|reflexivity|discriminate].
  cbn [bind]. destruct (len r1 <? _); reflexivity.
Qed.

Theorem private_decode_no_panic : forall data protocol expire xn key,
  is_panic (private_decode data protocol expire xn key) = false.
Proof.
  intros. unfold private_decode. destruct (xaead_open _ _ _ _) as [plain|]; [|reflexivity].
  pose proof (private_read_no_panic plain) as NP.
  destruct (private_read plain); [reflexivity|reflexivity|discriminate].
Qed.

Theorem token_read_no_panic : forall src, is_panic (token_read src) = false.
Proof.
  intro src. unfold token_read.
  destruct (len src <? 8 + 13); [reflexivity|]. cbv zeta.
  destruct (negb _); [reflexivity|].
  destruct (len (dropN 21 src) <? _); [reflexivity|].
  match goal with |- context [read_server_addresses ?s] =>
    pose proof (read_server_addresses_no_panic s) as NP;
    destruct (read_server_addresses s) as [[addrs r4]|e|site] end; [|reflexivity|discriminate].
  cbn [bind]. destruct (len r4 <? _); reflexivity.
Qed.

(* ------------------------------------------------------------------ *)
(* T3: the private part                                                *)
(* ------------------------------------------------------------------ *)

Lemma private_read_plain : forall t, private_wf t -> private_read (private_plain t) = Ok t.
Proof.
  intros [id timeout addrs c2s s2c user] (Hid & Hto & Hsl & Hc & Hs & Hu).
  cbn [pt_client_id pt_timeout pt_addrs pt_c2s pt_s2c pt_user] in *.
  unfold private_plain. cbn [pt_client_id pt_timeout pt_addrs pt_c2s pt_s2c pt_user]. cbv zeta.
  set (pad := zeros _). rewrite <- !app_assoc.
  unfold private_read.
  assert (E : (len (le64 id ++ i32_bytes timeout ++ write_server_addresses addrs ++ c2s ++ s2c ++ user ++ pad) <? 12) = false).
  { rewrite !len_app, len_le64, len_i32_bytes. lia. }
  rewrite E. cbv zeta.
  change 12 with (8 + 4). rewrite dropN_add.
  rewrite (takeN_app_exact 8) by apply len_le64. rewrite (dropN_app_exact 8) by apply len_le64.
  rewrite (takeN_app_exact 4) by apply len_i32_bytes. rewrite (dropN_app_exact 4) by apply len_i32_bytes.
  rewrite addrs_roundtrip by exact Hsl. cbn [bind].
  assert (E2 : (len (c2s ++ s2c ++ user ++ pad) <? NC_KEY_BYTES + NC_KEY_BYTES + NC_USER_DATA_BYTES) = false).
  { rewrite !len_app, Hc, Hs, Hu. lia. }
  rewrite E2.
  change (2 * NC_KEY_BYTES) with (NC_KEY_BYTES + NC_KEY_BYTES). rewrite dropN_add.
  rewrite (takeN_app_exact NC_KEY_BYTES) by exact Hc. rewrite (dropN_app_exact NC_KEY_BYTES) by exact Hc.
  rewrite (takeN_app_exact NC_KEY_BYTES) by exact Hs. rewrite (dropN_app_exact NC_KEY_BYTES) by exact Hs.
  rewrite (takeN_app_exact NC_USER_DATA_BYTES) by exact Hu.
  rewrite le_val_le64 by exact Hid. rewrite i32_roundtrip by exact Hto. reflexivity.
Qed.

Theorem private_roundtrip : forall t protocol expire xn key, private_wf t ->
  private_decode (private_encode t protocol expire xn key) protocol expire xn key = Ok t.
Proof.
  intros t protocol expire xn key W. unfold private_decode, private_encode.
  rewrite xaead_open_seal, private_read_plain by exact W. reflexivity.
Qed.

(* the private part opens only if it was sealed under this key and extended nonce with THIS
   protocol id and expiry as associated data *)
Theorem private_decode_sound : forall data protocol expire xn key t,
  private_decode data protocol expire xn key = Ok t ->
  exists plain, data = xaead_seal key xn (token_aad protocol expire) plain /\ private_read plain = Ok t.
Proof.
  intros data protocol expire xn key t H. unfold private_decode in H.
  destruct (xaead_open key xn (token_aad protocol expire) data) as [plain|] eqn:Eo; [|discriminate].
  exists plain. split; [apply xaead_open_iff; exact Eo|].
  destruct (private_read plain); [injection H as <-; reflexivity | discriminate | discriminate].
Qed.

Lemma token_aad_inj p1 e1 p2 e2 : p1 < U64 -> e1 < U64 -> p2 < U64 -> e2 < U64 ->
  token_aad p1 e1 = token_aad p2 e2 -> p1 = p2 /\ e1 = e2.
Proof.
  intros H1 H2 H3 H4 E. unfold token_aad in E. apply app_inv_head in E.
  assert (E1 : takeN 8 (le64 p1 ++ le64 e1) = takeN 8 (le64 p2 ++ le64 e2)) by (rewrite E; reflexivity).
  assert (E2 : dropN 8 (le64 p1 ++ le64 e1) = dropN 8 (le64 p2 ++ le64 e2)) by (rewrite E; reflexivity).
  rewrite !(takeN_app_exact 8) in E1 by apply len_le64.
  rewrite !(dropN_app_exact 8) in E2 by apply len_le64.
  split.
  - rewrite <- (le_val_le64 p1 H1), <- (le_val_le64 p2 H3), E1. reflexivity.
  - rewrite <- (le_val_le64 e1 H2), <- (le_val_le64 e2 H4), E2. reflexivity.
Qed.

(* the sealed private part has the fixed size *)
Lemma len_write_addr a : addr_wf a -> len (write_addr a) <= 19.
Proof.
  destruct a as [ip p|ip p]; cbn [addr_wf write_addr]; intros (H & _ & _);
    rewrite !len_app, len_le16, H; cbn; lia.
Qed.

Lemma len_write_addrs_body addrs : Forall addr_wf addrs ->
  len (write_addrs_body (map Some addrs)) <= 19 * len addrs.
Proof.
  induction 1 as [|a t Ha Ft IH]; [cbn; lia|].
  cbn [map write_addrs_body]. rewrite len_app, len_cons. pose proof (len_write_addr a Ha). lia.
Qed.

Theorem private_encode_length : forall t protocol expire xn key, private_wf t ->
  len (private_encode t protocol expire xn key) = NC_PRIVATE_BYTES.
Proof.
  intros [id timeout addrs c2s s2c user] protocol expire xn key (Hid & Hto & Hsl & Hc & Hs & Hu).
  cbn [pt_client_id pt_timeout pt_addrs pt_c2s pt_s2c pt_user] in *.
  unfold private_encode. rewrite xaead_seal_len. unfold private_plain.
  cbn [pt_client_id pt_timeout pt_addrs pt_c2s pt_s2c pt_user]. cbv zeta.
  rewrite len_app, len_zeros.
  destruct Hsl as (al & -> & H1 & H32 & F).
  rewrite !len_app, len_le64, len_i32_bytes, Hc, Hs, Hu.
  unfold write_server_addresses. rewrite len_app, len_le32, write_addrs_body_pad.
  pose proof (len_write_addrs_body al F) as L.
  rewrite key_bytes_val, user_data_bytes_val, private_bytes_val, mac_bytes_val. lia.
Qed.

(* ------------------------------------------------------------------ *)
(* T4: the public token                                                *)
(* ------------------------------------------------------------------ *)

Theorem token_roundtrip : forall t rest, token_wf t -> token_read (token_write t ++ rest) = Ok t.
Proof.
  intros [id version protocol create expire xn addrs c2s s2c private timeout] rest
         (Hid & Hv & Hp & Hcr & He & Hx & Hsl & Hc & Hs & Hpr & Hto).
  cbn [ct_client_id ct_version ct_protocol ct_create ct_expire ct_xnonce ct_addrs ct_c2s ct_s2c
       ct_private ct_timeout] in *. subst version.
  unfold token_write.
  cbn [ct_client_id ct_version ct_protocol ct_create ct_expire ct_xnonce ct_addrs ct_c2s ct_s2c
       ct_private ct_timeout].
  rewrite <- !app_assoc.
  unfold token_read.
  match goal with |- context [len ?l <? 8 + 13] =>
    assert (E : (len l <? 8 + 13) = false) by (rewrite !len_app, len_le64, len_version_info; lia) end.
  rewrite E. cbv zeta.
  change 21 with (8 + 13). rewrite dropN_add.
  rewrite (takeN_app_exact 8) by apply len_le64. rewrite (dropN_app_exact 8) by apply len_le64.
  rewrite (takeN_app_exact 13) by apply len_version_info.
  rewrite (dropN_app_exact 13) by apply len_version_info.
  rewrite bytes_eqb_refl. cbn [negb].
  match goal with |- context [len ?l <? 8 + 8 + 8 + NC_XNONCE_BYTES + NC_PRIVATE_BYTES + 4] =>
    assert (E2 : (len l <? 8 + 8 + 8 + NC_XNONCE_BYTES + NC_PRIVATE_BYTES + 4) = false)
      by (rewrite !len_app, !len_le64, len_i32_bytes, Hx, Hpr; lia) end.
  rewrite E2.
  change 24 with (8 + 8 + 8). change 16 with (8 + 8). rewrite !dropN_add.
  rewrite (takeN_app_exact 8) by apply len_le64. rewrite !(dropN_app_exact 8 (le64 protocol)) by apply len_le64.
  rewrite (takeN_app_exact 8) by apply len_le64. rewrite !(dropN_app_exact 8 (le64 create)) by apply len_le64.
  rewrite (takeN_app_exact 8) by apply len_le64. rewrite !(dropN_app_exact 8 (le64 expire)) by apply len_le64.
  rewrite (takeN_app_exact NC_XNONCE_BYTES) by exact Hx.
  rewrite (dropN_app_exact NC_XNONCE_BYTES) by exact Hx.
  rewrite (takeN_app_exact NC_PRIVATE_BYTES) by exact Hpr.
  rewrite (dropN_app_exact NC_PRIVATE_BYTES) by exact Hpr.
  rewrite (takeN_app_exact 4) by apply len_i32_bytes.
  rewrite (dropN_app_exact 4) by apply len_i32_bytes.
  rewrite addrs_roundtrip by exact Hsl. cbn [bind].
  assert (E3 : (len (c2s ++ s2c ++ rest) <? 2 * NC_KEY_BYTES) = false).
  { rewrite !len_app, Hc, Hs. lia. }
  rewrite E3.
  rewrite (takeN_app_exact NC_KEY_BYTES) by exact Hc. rewrite (dropN_app_exact NC_KEY_BYTES) by exact Hc.
  rewrite (takeN_app_exact NC_KEY_BYTES) by exact Hs.
  rewrite !le_val_le64 by assumption. rewrite i32_roundtrip by exact Hto. reflexivity.
Qed.

(* ------------------------------------------------------------------ *)
(* T5: whatever token_read returns is well formed, and reads back      *)
(* ------------------------------------------------------------------ *)

Theorem token_read_wf : forall b t, bytes_ok b -> token_read b = Ok t -> token_wf t.
Proof.
  intros b t B H. unfold token_read in H.
  destruct (len b <? 8 + 13) eqn:E1; [discriminate|]. cbv zeta in H.
  destruct (negb (bytes_eqb (takeN 13 (dropN 8 b)) NC_VERSION_INFO)) eqn:Ev; [discriminate|].
  destruct (len (dropN 21 b) <? 8 + 8 + 8 + NC_XNONCE_BYTES + NC_PRIVATE_BYTES + 4) eqn:E2; [discriminate|].
  match type of H with context [read_server_addresses ?s] =>
    destruct (read_server_addresses s) as [[addrs r4]|e|site] eqn:Ra end; try discriminate.
  cbn [bind] in H.
  destruct (len r4 <? 2 * NC_KEY_BYTES) eqn:E3; [discriminate|].
  injection H as <-.
  apply read_server_addresses_wf in Ra; [|repeat apply bytes_ok_dropN; exact B].
  destruct Ra as [Hsl Br4].
  apply negb_false_iff, list_eqb_N_eq in Ev.
  set (r0 := dropN 21 b) in *.
  assert (B0 : bytes_ok r0) by (apply bytes_ok_dropN; exact B).
  rewrite xnonce_bytes_val, private_bytes_val in E2. rewrite key_bytes_val in E3.
  unfold token_wf.
  cbn [ct_client_id ct_version ct_protocol ct_create ct_expire ct_xnonce ct_addrs ct_c2s ct_s2c
       ct_private ct_timeout].
  split. { apply le_val_lt_U64; [apply len_takeN_le; lia | apply bytes_ok_takeN; exact B]. }
  split. { exact Ev. }
  split. { apply le_val_lt_U64; [apply len_takeN_le; lia | apply bytes_ok_takeN; exact B0]. }
  split. { apply le_val_lt_U64; [rewrite len_takeN, len_dropN; lia | apply bytes_ok_takeN, bytes_ok_dropN; exact B0]. }
  split. { apply le_val_lt_U64; [rewrite len_takeN, len_dropN; lia | apply bytes_ok_takeN, bytes_ok_dropN; exact B0]. }
  split. { rewrite len_takeN, len_dropN, xnonce_bytes_val. lia. }
  split. { exact Hsl. }
  split. { rewrite len_takeN, key_bytes_val. lia. }
  split. { rewrite len_takeN, len_dropN, key_bytes_val. lia. }
  split. { rewrite len_takeN, !len_dropN, xnonce_bytes_val, private_bytes_val. lia. }
  apply i32_of_range. apply le_val_lt_u32.
  - rewrite len_takeN, !len_dropN, xnonce_bytes_val, private_bytes_val. lia.
  - apply bytes_ok_takeN. repeat apply bytes_ok_dropN. exact B.
Qed.

Theorem token_read_write_read : forall b t, bytes_ok b -> token_read b = Ok t ->
  token_read (token_write t) = Ok t.
Proof.
  intros b t B H. pose proof (token_read_wf b t B H) as W.
  rewrite <- (app_nil_r (token_write t)). apply token_roundtrip. exact W.
Qed.

(* the same for the private part *)
Theorem private_read_wf : forall b t, bytes_ok b -> private_read b = Ok t -> private_wf t.
Proof.
  intros b t B H. unfold private_read in H.
  destruct (len b <? 12) eqn:E1; [discriminate|]. cbv zeta in H.
  destruct (read_server_addresses (dropN 12 b)) as [[addrs r1]|e|site] eqn:Ra; try discriminate.
  cbn [bind] in H.
  destruct (len r1 <? NC_KEY_BYTES + NC_KEY_BYTES + NC_USER_DATA_BYTES) eqn:E2; [discriminate|].
  injection H as <-.
  apply read_server_addresses_wf in Ra; [|apply bytes_ok_dropN; exact B].
  destruct Ra as [Hsl Br1].
  rewrite key_bytes_val, user_data_bytes_val in E2.
  unfold private_wf. cbn [pt_client_id pt_timeout pt_addrs pt_c2s pt_s2c pt_user].
  split. { apply le_val_lt_U64; [apply len_takeN_le; lia | apply bytes_ok_takeN; exact B]. }
  split. { apply i32_of_range, le_val_lt_u32;
           [rewrite len_takeN, len_dropN; lia | apply bytes_ok_takeN, bytes_ok_dropN; exact B]. }
  split. { exact Hsl. }
  split. { rewrite len_takeN, key_bytes_val. lia. }
  split. { rewrite len_takeN, len_dropN, key_bytes_val. lia. }
  rewrite len_takeN, len_dropN, key_bytes_val, user_data_bytes_val. lia.
Qed.

(* token_generate produces well formed tokens whose private part decodes to what went in *)
Theorem token_generate_wf : forall now protocol expire_seconds id timeout addrs user key xn c2s s2c t,
  token_generate now protocol expire_seconds id timeout addrs user key xn c2s s2c = Ok t ->
  id < U64 -> protocol < U64 -> as_secs now + expire_seconds < U64 ->
  (-2147483648 <= timeout < 2147483648)%Z -> Forall addr_wf addrs ->
  len user = NC_USER_DATA_BYTES -> len xn = NC_XNONCE_BYTES ->
  len c2s = NC_KEY_BYTES -> len s2c = NC_KEY_BYTES ->
  token_wf t /\
  exists pt, private_wf pt /\
    private_decode (ct_private t) (ct_protocol t) (ct_expire t) (ct_xnonce t) key = Ok pt /\
    pt_client_id pt = id /\ pt_addrs pt = ct_addrs t /\ pt_c2s pt = c2s /\ pt_s2c pt = s2c /\
    pt_user pt = user /\ pt_timeout pt = timeout.
Proof.
  intros now protocol es id timeout addrs user key xn c2s s2c t H Hid Hp He Hto F Hu Hx Hc Hs.
  unfold token_generate in H.
  destruct (32 <? len addrs) eqn:E32; [discriminate|].
  destruct addrs as [|a al] eqn:Ea; [discriminate|]. rewrite <- Ea in *.
  assert (Hsl : slots_wf (pad_slots (map Some addrs))).
  { exists addrs. split; [reflexivity|]. split; [subst addrs; rewrite len_cons; lia|]. split; [lia|exact F]. }
  set (pt := {| pt_client_id := id; pt_timeout := timeout; pt_addrs := pad_slots (map Some addrs);
                pt_c2s := c2s; pt_s2c := s2c; pt_user := user |}) in *.
  assert (Wp : private_wf pt) by (unfold private_wf, pt; cbn; tauto).
  assert (Ht : t = {| ct_client_id := id; ct_version := NC_VERSION_INFO; ct_protocol := protocol;
            ct_create := as_secs now; ct_expire := as_secs now + es; ct_xnonce := xn;
            ct_addrs := pad_slots (map Some addrs);
            ct_c2s := c2s; ct_s2c := s2c;
            ct_private := private_encode pt protocol (as_secs now + es) xn key;
            ct_timeout := timeout |}).
  { subst addrs. injection H as <-. reflexivity. }
  clear H. subst t.
  split.
  - unfold token_wf. cbn [ct_client_id ct_version ct_protocol ct_create ct_expire ct_xnonce ct_addrs
      ct_c2s ct_s2c ct_private ct_timeout].
    repeat split; try assumption; try lia.
    apply private_encode_length. exact Wp.
  - exists pt. split; [exact Wp|].
    cbn [ct_client_id ct_version ct_protocol ct_create ct_expire ct_xnonce ct_addrs
      ct_c2s ct_s2c ct_private ct_timeout].
    split; [apply private_roundtrip; exact Wp|]. repeat split; reflexivity.
Qed.

(* ------------------------------------------------------------------ *)
(* T6: the hypotheses are satisfiable                                  *)
(* ------------------------------------------------------------------ *)

Definition ex_addrs : list addr :=
  [AddrV4 [127; 0; 0; 1] 5000;
   AddrV6 [32; 1; 13; 184; 0; 0; 0; 0; 0; 0; 0; 0; 0; 0; 0; 1] 65535].

Definition ex_slots : list (option addr) := pad_slots (map Some ex_addrs).

Lemma bytes_ok_dec_true l : forallb (fun b => b <? 256) l = true -> bytes_ok l.
Proof.
  intro H. unfold bytes_ok. apply Forall_forall. intros x Hx.
  rewrite forallb_forall in H. specialize (H x Hx). lia.
Qed.

Example ex_slots_wf : slots_wf ex_slots.
Proof.
  exists ex_addrs. split; [reflexivity|]. split; [cbn; lia|]. split; [cbn; lia|].
  repeat constructor; apply bytes_ok_dec_true; reflexivity.
Qed.

Definition ex_private : private_token :=
  {| pt_client_id := 18446744073709551615; pt_timeout := (-1)%Z; pt_addrs := ex_slots;
     pt_c2s := repeatN 17 32; pt_s2c := repeatN 34 32; pt_user := repeatN 255 256 |}.

Example ex_private_wf : private_wf ex_private.
Proof.
  unfold private_wf. cbn [ex_private pt_client_id pt_timeout pt_addrs pt_c2s pt_s2c pt_user].
  split; [reflexivity|]. split; [lia|]. split; [exact ex_slots_wf|].
  repeat split.
Qed.

Definition ex_token : connect_token :=
  {| ct_client_id := 7; ct_version := NC_VERSION_INFO; ct_protocol := 18446744073709551615;
     ct_create := 1000; ct_expire := 1300; ct_xnonce := repeatN 9 24; ct_addrs := ex_slots;
     ct_c2s := repeatN 17 32; ct_s2c := repeatN 34 32; ct_private := repeatN 200 1024;
     ct_timeout := (-2147483648)%Z |}.

Example ex_token_wf : token_wf ex_token.
Proof.
  unfold token_wf. cbn [ex_token ct_client_id ct_version ct_protocol ct_create ct_expire ct_xnonce
    ct_addrs ct_c2s ct_s2c ct_private ct_timeout].
  split; [reflexivity|]. split; [reflexivity|]. split; [reflexivity|]. split; [reflexivity|].
  split; [reflexivity|]. split; [reflexivity|]. split; [exact ex_slots_wf|].
  split; [reflexivity|]. split; [reflexivity|]. split; [reflexivity|]. lia.
Qed.

Example ex_token_roundtrip : token_read (token_write ex_token) = Ok ex_token.
Proof. vm_compute. reflexivity. Qed.

Example ex_token_length : len (token_write ex_token) = 1191.
Proof. vm_compute. reflexivity. Qed.

Example ex_private_plain_roundtrip : private_read (private_plain ex_private) = Ok ex_private.
Proof. vm_compute. reflexivity. Qed.

Example ex_addrs_roundtrip :
  read_server_addresses (write_server_addresses ex_slots ++ [1; 2; 3]) = Ok (ex_slots, [1; 2; 3]).
Proof. vm_compute. reflexivity. Qed.

(* through the cipher: the sealed private part of a generated token *)
Definition ex_generated : nres connect_token :=
  token_generate 5000000000 42 300 9 15%Z ex_addrs (repeatN 255 256) (repeatN 7 32) (repeatN 9 24)
                 (repeatN 17 32) (repeatN 34 32).

Example ex_generated_ok :
  match ex_generated with
  | Ok t =>
      token_read (token_write t) = Ok t /\
      len (ct_private t) = NC_PRIVATE_BYTES /\
      ct_expire t = 305 /\
      (exists pt, private_decode (ct_private t) 42 (ct_expire t) (ct_xnonce t) (repeatN 7 32) = Ok pt /\
                  pt_client_id pt = 9 /\ pt_addrs pt = ex_slots) /\
      (* another protocol id, expiry or key: refused *)
      private_decode (ct_private t) 43 (ct_expire t) (ct_xnonce t) (repeatN 7 32) = Err ETokenGeneration /\
      private_decode (ct_private t) 42 (ct_expire t + 1) (ct_xnonce t) (repeatN 7 32) = Err ETokenGeneration /\
      private_decode (ct_private t) 42 (ct_expire t) (ct_xnonce t) (repeatN 8 32) = Err ETokenGeneration
  | _ => False
  end.
Proof.
  vm_compute. repeat split. eexists. repeat split.
Qed.

Print Assumptions private_decode_no_panic.
Print Assumptions token_read_no_panic.
Print Assumptions read_server_addresses_no_panic.
Print Assumptions addrs_roundtrip.
Print Assumptions read_server_addresses_wf.
Print Assumptions private_roundtrip.
Print Assumptions private_decode_sound.
Print Assumptions private_encode_length.
Print Assumptions token_roundtrip.
Print Assumptions token_read_wf.
Print Assumptions token_read_write_read.
Print Assumptions private_read_wf.
Print Assumptions token_generate_wf.
Print Assumptions ex_private_wf.
Print Assumptions ex_token_wf.
Print Assumptions ex_token_roundtrip.
Print Assumptions ex_generated_ok.
