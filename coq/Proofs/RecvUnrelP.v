(* RecvUnrelP.v - ReceiveChannelUnreliable: safety under hostile input, memory accounting,
   and the discard of stale partial messages. *)
From RenetV Require Import Base Consts Varint Packet Channels RecvSpec SMapP SliceP RecvRelP.
Require Import Lia ZifyBool ZifyN ZifyNat.
Arguments N.add : simpl never.
Arguments N.sub : simpl never.
Arguments N.mul : simpl never.
Arguments N.div : simpl never.
Arguments N.modulo : simpl never.
Arguments N.eqb : simpl never.
Arguments N.ltb : simpl never.
Arguments N.leb : simpl never.
Open Scope N_scope.

Lemma lasts_bytes_app a b : lasts_bytes (a ++ b) = lasts_bytes a + lasts_bytes b.
Proof. unfold lasts_bytes. rewrite map_app, sum_app. reflexivity. Qed.

Lemma lasts_bytes_one m : lasts_bytes [m] = len m.
Proof. unfold lasts_bytes. cbn [map]. rewrite sum_cons, sum_nil. lia. Qed.

Lemma lasts_bytes_cons m t : lasts_bytes (m :: t) = len m + lasts_bytes t.
Proof. reflexivity. Qed.

(* ------------------------------------------------------------------ *)
(* U1, U2, U5, U6 *)

Theorem ru_inv_init : forall now max, ru_inv now (recv_unrel_new max).
Proof.
  intros now max. unfold ru_inv, recv_unrel_new.
  cbn [ru_messages ru_slices ru_last ru_max ru_mem map].
  split; [reflexivity|]. split; [lia|]. split; [constructor|].
  split; [intros id H; discriminate|]. split; [intros id t H; discriminate|]. split; exact I.
Qed.

Theorem ru_process_message_safe : forall now r m, ru_inv now r ->
  ru_inv now (ru_process_message r m) /\ ru_max (ru_process_message r m) = ru_max r.
Proof.
  intros now r m Hinv. unfold ru_process_message.
  destruct (N.ltb_spec (ru_max r) (ru_mem r + len m)); [auto|].
  split; [|reflexivity]. destruct Hinv as (I1 & I2 & I3 & I4 & I5 & I6 & I7).
  unfold ru_inv. cbn [ru_with ru_messages ru_slices ru_last ru_max ru_mem].
  rewrite lasts_bytes_app, lasts_bytes_one.
  split; [lia|]. split; [lia|]. auto 10.
Qed.

Theorem ru_receive_safe : forall now r, ru_inv now r ->
  match ru_receive r with
  | Ok (r', _) => ru_inv now r' /\ ru_max r' = ru_max r
  | _ => False
  end.
Proof.
  intros now r Hinv. unfold ru_receive. destruct (ru_messages r) as [|m t] eqn:E; [auto|].
  destruct Hinv as (I1 & I2 & I3 & I4 & I5 & I6 & I7). rewrite E, lasts_bytes_cons in I1.
  unfold sub_chk. destruct (N.leb_spec (len m) (ru_mem r)); [|lia]. cbn [bind].
  split; [|reflexivity]. unfold ru_inv. cbn [ru_with ru_messages ru_slices ru_last ru_max ru_mem].
  split; [lia|]. split; [lia|]. auto 10.
Qed.

Theorem ru_inv_mono : forall now now' r, ru_inv now r -> now <= now' -> ru_inv now' r.
Proof.
  intros now now' r (I1 & I2 & I3 & I4 & I5 & I6 & I7) H. unfold ru_inv.
  repeat (split; [assumption|]). split; [|auto]. intros id t Hf. specialize (I5 id t Hf). lia.
Qed.

(* ------------------------------------------------------------------ *)
(* dropping the constructor of id together with its reservation *)

Lemma ru_inv_drop now r id c ms mem :
  ru_inv now r -> sm_find id (ru_slices r) = Some c ->
  mem + sc_num c * SLICE_SIZE + lasts_bytes (ru_messages r) = ru_mem r + lasts_bytes ms ->
  mem <= ru_max r ->
  ru_inv now (ru_with r ms (sm_remove id (ru_slices r)) (sm_remove id (ru_last r)) mem).
Proof.
  intros (I1 & I2 & I3 & I4 & I5 & I6 & I7) Hf Hmem Hmax.
  pose proof (ctors_bytes_remove _ _ _ Hf) as R.
  unfold ru_inv. cbn [ru_with ru_messages ru_slices ru_last ru_max ru_mem].
  split; [lia|]. split; [exact Hmax|]. split; [apply Forall_sm_remove; exact I3|].
  split; [|split; [|split; [apply asc_sm_remove; auto|apply asc_sm_remove; auto]]].
  - intros k. rewrite !sm_mem_remove by auto. intros Hk. apply andb_true_iff in Hk.
    destruct Hk as [K1 K2]. rewrite K1, (I4 k K2). reflexivity.
  - intros k t. rewrite sm_find_remove by auto. destruct (k =? id); [discriminate|apply I5].
Qed.

(* ------------------------------------------------------------------ *)
(* U3 *)

Definition ru_body (r1 : recv_unrel) (id idx : N) (payload : list N) (now : N) (c : sctor)
  : cres recv_unrel :=
  match sctor_process c idx payload with
  | Panic p => Panic p
  | Err e => Err e
  | Ok (c', None) =>
      Ok (ru_with r1 (ru_messages r1) (sm_insert id c' (ru_slices r1)) (sm_insert id now (ru_last r1))
                  (ru_mem r1))
  | Ok (c', Some m) =>
      do mem <- sub_chk SITE_RECV_MEM_SUB (ru_mem r1) (sc_num c * SLICE_SIZE);
      Ok (ru_with r1 (ru_messages r1 ++ [m]) (sm_remove id (ru_slices r1)) (sm_remove id (ru_last r1))
                  (mem + len m))
  end.

Lemma ru_body_safe now r1 id idx payload c :
  ru_inv now r1 -> sm_find id (ru_slices r1) = Some c ->
  match ru_body r1 id idx payload now c with
  | Ok r' => ru_inv now r' /\ ru_max r' = ru_max r1
  | Err e => e = InvalidSliceMessage
  | Panic _ => False
  end.
Proof.
  intros Hinv Hf. pose proof Hinv as (I1 & I2 & I3 & I4 & I5 & I6 & I7).
  pose proof (Forall_sm_find _ _ _ _ I3 Hf) as W. cbn [snd] in W.
  pose proof (sctor_process_safe c idx payload W) as P. unfold ru_body.
  destruct (sctor_process c idx payload) as [[c' [m|]]|e|p]; auto.
  - pose proof (ctors_bytes_remove _ _ _ Hf) as R. unfold sub_chk.
    destruct (N.leb_spec (sc_num c * SLICE_SIZE) (ru_mem r1)); [|lia]. cbn [bind].
    split; [|reflexivity]. apply (ru_inv_drop now r1 id c); auto.
    + rewrite lasts_bytes_app, lasts_bytes_one. lia.
    + lia.
  - destruct P as [W' En]. split; [|reflexivity].
    unfold ru_inv. cbn [ru_with ru_messages ru_slices ru_last ru_max ru_mem].
    split; [rewrite (ctors_bytes_insert_same _ _ c) by auto; exact I1|].
    split; [exact I2|]. split; [apply Forall_sm_insert; auto|].
    split; [|split; [|split; [apply asc_sm_insert; auto|apply asc_sm_insert; auto]]].
    + intros k. rewrite !sm_mem_insert. destruct (k =? id); cbn [orb]; auto.
    + intros k t. rewrite sm_find_insert. destruct (k =? id); [intros [= <-]; lia|apply I5].
Qed.

Lemma ru_process_slice_unfold r s now :
  ru_process_slice r s now =
  match (match sm_find (sl_id s) (ru_slices r) with
         | Some _ => Some r
         | None =>
             if ru_max r <? ru_mem r + sl_num s * SLICE_SIZE then None
             else Some (ru_with r (ru_messages r)
                                (sm_insert (sl_id s) (sctor_new (sl_num s)) (ru_slices r))
                                (ru_last r) (ru_mem r + sl_num s * SLICE_SIZE))
         end) with
  | None => Ok r
  | Some r1 =>
      match sm_find (sl_id s) (ru_slices r1) with
      | None => Panic SITE_CTOR_INDEX
      | Some c => ru_body r1 (sl_id s) (sl_index s) (sl_payload s) now c
      end
  end.
Proof.
  unfold ru_process_slice, ru_body.
  destruct (sm_find (sl_id s) (ru_slices r)) as [c0|].
  - destruct (sm_find (sl_id s) (ru_slices r)) as [c|]; [|reflexivity].
    destruct (sctor_process c (sl_index s) (sl_payload s)) as [[c' [m|]]|e|p]; reflexivity.
  - destruct (ru_max r <? ru_mem r + sl_num s * SLICE_SIZE); [reflexivity|].
    match goal with |- match sm_find ?k ?m with _ => _ end = _ => destruct (sm_find k m) as [c|] end;
      [|reflexivity].
    destruct (sctor_process c (sl_index s) (sl_payload s)) as [[c' [m|]]|e|p]; reflexivity.
Qed.

Lemma ru_inv_reserve now r id n : ru_inv now r -> 1 <= n -> sm_find id (ru_slices r) = None ->
  ru_mem r + n * SLICE_SIZE <= ru_max r ->
  ru_inv now (ru_with r (ru_messages r) (sm_insert id (sctor_new n) (ru_slices r)) (ru_last r)
                      (ru_mem r + n * SLICE_SIZE)).
Proof.
  intros (I1 & I2 & I3 & I4 & I5 & I6 & I7) Hn Hf Hmax.
  unfold ru_inv. cbn [ru_with ru_messages ru_slices ru_last ru_max ru_mem].
  split; [rewrite ctors_bytes_insert_new by auto; cbn [sctor_new sc_num]; lia|].
  split; [exact Hmax|].
  split; [apply Forall_sm_insert; [apply sctor_new_wf; exact Hn|exact I3]|].
  split; [|split; [exact I5|split; [apply asc_sm_insert; auto|exact I7]]].
  intros k Hk. rewrite sm_mem_insert, (I4 k Hk). apply orb_true_r.
Qed.

Theorem ru_process_slice_safe : forall now r s, ru_inv now r -> slice_decoded s ->
  match ru_process_slice r s now with
  | Ok r' => ru_inv now r' /\ ru_max r' = ru_max r
  | Err e => e = InvalidSliceMessage
  | Panic _ => False
  end.
Proof.
  intros now r s Hinv [Hn _]. rewrite ru_process_slice_unfold.
  destruct (sm_find (sl_id s) (ru_slices r)) as [c|] eqn:Ef.
  - rewrite Ef. apply ru_body_safe; auto.
  - destruct (N.ltb_spec (ru_max r) (ru_mem r + sl_num s * SLICE_SIZE)); [auto|].
    cbn [ru_with ru_slices]. rewrite sm_find_insert_same.
    pose proof (ru_inv_reserve now r (sl_id s) (sl_num s) Hinv Hn Ef ltac:(lia)) as Hinv1.
    apply (ru_body_safe now _ (sl_id s) (sl_index s) (sl_payload s) (sctor_new (sl_num s))) in Hinv1.
    + exact Hinv1.
    + cbn [ru_with ru_slices]. apply sm_find_insert_same.
Qed.

(* ------------------------------------------------------------------ *)
(* U4, U7: discarding stale partial messages *)

Definition stale (now t : N) : bool := DISCARD_SLICE_SECS * 1000000000 <=? now - t.

(* is id one of the stale entries of la *)
Definition stale_in (now : N) (la : list (N * N)) (id : N) : bool :=
  match sm_find id la with Some t => stale now t | None => false end.

(* the reservations held for the stale entries of la *)
Definition stale_sum (now : N) (la : list (N * N)) (sl : list (N * sctor)) : N :=
  sum (map (fun it => if stale now (snd it)
                      then match sm_find (fst it) sl with Some c => sc_num c * SLICE_SIZE | None => 0 end
                      else 0) la).

Definition stale_bytes (now : N) (r : recv_unrel) : N := stale_sum now (ru_last r) (ru_slices r).

Lemma stale_sum_ext now la sl sl' :
  (forall k t, In (k, t) la -> sm_find k sl = sm_find k sl') ->
  stale_sum now la sl = stale_sum now la sl'.
Proof.
  unfold stale_sum. induction la as [|[k t] la IH]; intros H; [reflexivity|].
  cbn [map fst snd]. rewrite !sum_cons. rewrite (H k t) by (left; reflexivity).
  f_equal. apply IH. intros k' t' Hin. apply (H k' t'). right. exact Hin.
Qed.

Lemma discard_loop_spec now : forall la r,
  ru_inv now r -> asc (map fst la) ->
  (forall id t, In (id, t) la -> sm_find id (ru_last r) = Some t) ->
  exists r', ru_discard_loop now la r = Ok r' /\
    ru_inv now r' /\ ru_max r' = ru_max r /\ ru_messages r' = ru_messages r /\
    (forall k, sm_find k (ru_slices r') = if stale_in now la k then None else sm_find k (ru_slices r)) /\
    (forall k, sm_find k (ru_last r') = if stale_in now la k then None else sm_find k (ru_last r)) /\
    ru_mem r' + stale_sum now la (ru_slices r) = ru_mem r.
Proof.
  induction la as [|[id t] rest IH]; intros r Hinv A Hsub.
  - exists r. cbn [ru_discard_loop]. unfold stale_in, stale_sum. cbn [sm_find map].
    rewrite sum_nil. split; [reflexivity|]. split; [exact Hinv|]. split; [reflexivity|].
    split; [reflexivity|]. split; [reflexivity|]. split; [reflexivity|]. lia.
  - pose proof Hinv as (I1 & I2 & I3 & I4 & I5 & I6 & I7).
    cbn [map fst] in A. destruct A as [Alt Arest].
    assert (Hlast : sm_find id (ru_last r) = Some t) by (apply Hsub; left; reflexivity).
    pose proof (I5 id t Hlast) as Ht.
    assert (Hidrest : sm_find id rest = None) by (apply sm_find_lt_none; exact Alt).
    assert (Hne : forall k t', In (k, t') rest -> k <> id).
    { intros k t' Hin. rewrite Forall_forall in Alt.
      specialize (Alt k (in_map fst _ _ Hin)). cbn [fst] in Alt. lia. }
    cbn [ru_discard_loop]. unfold sub_chk at 1.
    destruct (N.leb_spec t now); [|lia]. cbn [bind].
    fold (stale now t). destruct (stale now t) eqn:Est.
    + (* stale: dropped *)
      destruct (sm_mem_find _ _ (I4 id (sm_find_some_mem _ _ _ Hlast))) as [c Hc]. rewrite Hc.
      pose proof (ctors_bytes_remove _ _ _ Hc) as R. unfold sub_chk.
      destruct (N.leb_spec (sc_num c * SLICE_SIZE) (ru_mem r)); [|lia]. cbn [bind].
      set (r2 := ru_with r (ru_messages r) (sm_remove id (ru_slices r)) (sm_remove id (ru_last r))
                         (ru_mem r - sc_num c * SLICE_SIZE)).
      assert (Hinv2 : ru_inv now r2) by (apply (ru_inv_drop now r id c); auto; lia).
      destruct (IH r2 Hinv2 Arest) as (r' & E & Hinv' & Emax & Emsgs & Esl & Ela & Emem).
      { intros k t' Hin. unfold r2. cbn [ru_with ru_last].
        rewrite sm_find_remove_other by (eapply Hne; eauto). apply Hsub. right. exact Hin. }
      exists r'. split; [exact E|]. split; [exact Hinv'|]. split; [exact Emax|]. split; [exact Emsgs|].
      unfold r2 in Esl, Ela, Emem. cbn [ru_with ru_slices ru_last ru_mem] in Esl, Ela, Emem.
      split; [|split].
      * intros k. rewrite Esl. unfold stale_in. cbn [sm_find].
        rewrite sm_find_remove by auto.
        destruct (N.eqb_spec k id) as [->|Hk]; [rewrite Hidrest, Est; reflexivity|reflexivity].
      * intros k. rewrite Ela. unfold stale_in. cbn [sm_find].
        rewrite sm_find_remove by auto.
        destruct (N.eqb_spec k id) as [->|Hk]; [rewrite Hidrest, Est; reflexivity|reflexivity].
      * rewrite (stale_sum_ext now rest _ (ru_slices r)) in Emem.
        2:{ intros k t' Hin. apply sm_find_remove_other. eapply Hne; eauto. }
        unfold stale_sum in *. cbn [map fst snd]. rewrite sum_cons, Est, Hc. lia.
    + (* kept *)
      destruct (IH r Hinv Arest) as (r' & E & Hinv' & Emax & Emsgs & Esl & Ela & Emem).
      { intros k t' Hin. apply Hsub. right. exact Hin. }
      exists r'. split; [exact E|]. split; [exact Hinv'|]. split; [exact Emax|]. split; [exact Emsgs|].
      split; [|split].
      * intros k. rewrite Esl. unfold stale_in. cbn [sm_find].
        destruct (N.eqb_spec k id) as [->|Hk]; [rewrite Hidrest, Est; reflexivity|reflexivity].
      * intros k. rewrite Ela. unfold stale_in. cbn [sm_find].
        destruct (N.eqb_spec k id) as [->|Hk]; [rewrite Hidrest, Est; reflexivity|reflexivity].
      * unfold stale_sum in *. cbn [map fst snd]. rewrite sum_cons, Est. lia.
Qed.

Lemma discard_old_spec now now' r : ru_inv now r -> now <= now' ->
  exists r', ru_discard_old r now' = Ok r' /\
    ru_inv now' r' /\ ru_max r' = ru_max r /\ ru_messages r' = ru_messages r /\
    (forall k, sm_find k (ru_slices r') =
               if stale_in now' (ru_last r) k then None else sm_find k (ru_slices r)) /\
    (forall k, sm_find k (ru_last r') =
               if stale_in now' (ru_last r) k then None else sm_find k (ru_last r)) /\
    ru_mem r' + stale_bytes now' r = ru_mem r.
Proof.
  intros Hinv Hle. pose proof (ru_inv_mono now now' r Hinv Hle) as Hinv'.
  pose proof Hinv' as (_ & _ & _ & _ & _ & _ & I7).
  unfold ru_discard_old, stale_bytes. apply discard_loop_spec; auto.
  intros id t Hin. pose proof (asc_NoDup _ I7) as ND.
  (* an entry of a duplicate-free association list is what sm_find returns *)
  clear -Hin I7. induction (ru_last r) as [|[k v] l IH]; [destruct Hin|].
  cbn [map fst] in I7. destruct I7 as [F A]. cbn [sm_find]. destruct Hin as [[= -> ->]|Hin].
  - rewrite N.eqb_refl. reflexivity.
  - destruct (N.eqb_spec id k) as [->|Hne]; [|auto].
    rewrite Forall_forall in F. specialize (F k (in_map fst _ _ Hin)). lia.
Qed.

Theorem ru_discard_old_safe : forall now now' r, ru_inv now r -> now <= now' ->
  match ru_discard_old r now' with
  | Ok r' => ru_inv now' r' /\ ru_max r' = ru_max r
  | _ => False
  end.
Proof.
  intros now now' r Hinv Hle.
  destruct (discard_old_spec now now' r Hinv Hle) as (r' & -> & H1 & H2 & _). auto.
Qed.

Theorem stale_discarded : forall now now' r r', ru_inv now r -> now <= now' ->
  ru_discard_old r now' = Ok r' ->
  (forall id t, sm_find id (ru_last r) = Some t ->
                DISCARD_SLICE_SECS * 1000000000 <= now' - t ->
                sm_mem id (ru_slices r') = false) /\
  (* exactly the stale ids are dropped, everything else is untouched *)
  (forall id, sm_find id (ru_slices r') =
              if stale_in now' (ru_last r) id then None else sm_find id (ru_slices r)) /\
  (forall id, sm_find id (ru_last r') =
              if stale_in now' (ru_last r) id then None else sm_find id (ru_last r)) /\
  ru_messages r' = ru_messages r /\
  (* and exactly their reservations are released *)
  ru_mem r' + stale_bytes now' r = ru_mem r.
Proof.
  intros now now' r r' Hinv Hle E.
  destruct (discard_old_spec now now' r Hinv Hle) as (r'' & E' & _ & _ & Hm & Hsl & Hla & Hmem).
  rewrite E in E'. injection E' as <-.
  split; [|auto]. intros id t Hf Hst. apply sm_find_none_mem. rewrite Hsl.
  unfold stale_in. rewrite Hf. unfold stale.
  destruct (N.leb_spec (DISCARD_SLICE_SECS * 1000000000) (now' - t)); [reflexivity|lia].
Qed.

Print Assumptions ru_inv_init.
Print Assumptions ru_process_message_safe.
Print Assumptions ru_process_slice_safe.
Print Assumptions ru_discard_old_safe.
Print Assumptions ru_receive_safe.
Print Assumptions ru_inv_mono.
Print Assumptions stale_discarded.
