(* ConnSpec.v - the public API of a connection and of a server as operation types,
   so that theorems can quantify over arbitrary call sequences. Definitions only. *)
From RenetV Require Import Base Consts Varint Packet Channels Conn Server.
Open Scope N_scope.

(* ---------- one connection ---------- *)
Inductive cop :=
| CSend (ch : N) (m : list N)
| CRecv (ch : N)
| CUpdate (dt : N)
| CProcess (bytes : list N)         (* any byte string, hostile or not *)
| CFlush                            (* get_packets_to_send *)
| CSetConnected | CSetConnecting | CDisconnect | CDisconnectTransport.

Inductive cout :=
| ONone
| OMsg (m : option (list N))
| OPkts (p : list (list N)).

Definition cstep (c : conn) (o : cop) : pres (conn * cout) :=
  match o with
  | CSend ch m => do c' <- send_message c ch m; Ok (c', ONone)
  | CRecv ch => do r <- receive_message c ch; let (c', m) := r in Ok (c', OMsg m)
  | CUpdate dt => do c' <- update c dt; Ok (c', ONone)
  | CProcess b => do c' <- process_packet c b; Ok (c', ONone)
  | CFlush => do r <- get_packets_to_send c; let (c', p) := r in Ok (c', OPkts p)
  | CSetConnected => Ok (set_connected c, ONone)
  | CSetConnecting => Ok (set_connecting c, ONone)
  | CDisconnect => Ok (disconnect c, ONone)
  | CDisconnectTransport => Ok (disconnect_transport c, ONone)
  end.

Fixpoint crun (c : conn) (ops : list cop) : pres (conn * list cout) :=
  match ops with
  | [] => Ok (c, [])
  | o :: t =>
      do r <- cstep c o;
      let (c1, out) := r in
      do r2 <- crun c1 t;
      let (c2, outs) := r2 in
      Ok (c2, out :: outs)
  end.

(* the channel ids an operation may legitimately name (an unknown id is documented API misuse) *)
Definition has_send_channel (c : conn) (ch : N) : bool := sm_mem ch (c_sr c) || sm_mem ch (c_su c).
Definition has_recv_channel (c : conn) (ch : N) : bool := sm_mem ch (c_rr c) || sm_mem ch (c_ru c).
Definition cop_ok (c : conn) (o : cop) : Prop :=
  match o with
  | CSend ch _ => has_send_channel c ch = true
  | CRecv ch => has_recv_channel c ch = true
  | _ => True
  end.

Definition quiet (o : cout) : Prop :=
  match o with ONone => True | OMsg m => m = None | OPkts p => p = [] end.

(* ---------- the server ---------- *)
Inductive sop :=
| SAdd (id : N) | SRemove (id : N) | SDisconnect (id : N) | SDisconnectAll
| SBroadcast (ch : N) (m : list N) | SBroadcastExcept (id ch : N) (m : list N)
| SSend (id ch : N) (m : list N) | SRecv (id ch : N)
| SUpdate (dt : N) | SFlush (id : N) | SProcess (id : N) (bytes : list N)
| SGetEvent.

Inductive sout :=
| SONone
| SOMsg (m : option (list N))
| SOPkts (p : option (list (list N)))
| SOEvent (e : option event).

Definition sstep (s : server) (o : sop) : pres (server * sout) :=
  match o with
  | SAdd id => do s' <- add_connection s id; Ok (s', SONone)
  | SRemove id => Ok (remove_connection s id, SONone)
  | SDisconnect id => Ok (srv_disconnect s id, SONone)
  | SDisconnectAll => Ok (disconnect_all s, SONone)
  | SBroadcast ch m => do s' <- broadcast_message s ch m; Ok (s', SONone)
  | SBroadcastExcept id ch m => do s' <- broadcast_message_except s id ch m; Ok (s', SONone)
  | SSend id ch m => do s' <- srv_send_message s id ch m; Ok (s', SONone)
  | SRecv id ch => do r <- srv_receive_message s id ch; let (s', m) := r in Ok (s', SOMsg m)
  | SUpdate dt => do s' <- srv_update s dt; Ok (s', SONone)
  | SFlush id => do r <- srv_get_packets_to_send s id; let (s', p) := r in Ok (s', SOPkts p)
  | SProcess id b => do r <- process_packet_from s b id; let (s', _) := r in Ok (s', SONone)
  | SGetEvent => let (s', e) := get_event s in Ok (s', SOEvent e)
  end.

(* runs a call sequence and also returns every event the application took out, in order *)
Fixpoint srun (s : server) (ops : list sop) : pres (server * list sout) :=
  match ops with
  | [] => Ok (s, [])
  | o :: t =>
      do r <- sstep s o;
      let (s1, out) := r in
      do r2 <- srun s1 t;
      let (s2, outs) := r2 in
      Ok (s2, out :: outs)
  end.

Fixpoint taken_events (outs : list sout) : list event :=
  match outs with
  | [] => []
  | SOEvent (Some e) :: t => e :: taken_events t
  | _ :: t => taken_events t
  end.

(* everything ever reported: what the application took out followed by what is still queued *)
Definition all_events (s : server) (outs : list sout) : list event := taken_events outs ++ s_events s.

Definition ev_id (e : event) : N := match e with EvConnected id => id | EvDisconnected id _ => id end.
Definition ev_is_connect (e : event) : bool := match e with EvConnected _ => true | _ => false end.

(* Connected, Disconnected, Connected, ... for one id; [expect] = the next event must be a connect *)
Fixpoint alternates (id : N) (expect_connect : bool) (evs : list event) : Prop :=
  match evs with
  | [] => True
  | e :: t =>
      if ev_id e =? id
      then ev_is_connect e = expect_connect /\ alternates id (negb expect_connect) t
      else alternates id expect_connect t
  end.

(* the last event about id, if any, is a connect *)
Fixpoint last_is_connect (id : N) (evs : list event) (cur : bool) : bool :=
  match evs with
  | [] => cur
  | e :: t => last_is_connect id t (if ev_id e =? id then ev_is_connect e else cur)
  end.

(* what a server call does to ONE connection, as a function of that connection alone *)
Definition local_step (o : sop) (id : N) (c : conn) : pres conn :=
  match o with
  | SAdd _ | SRemove _ | SGetEvent => Ok c
  | SDisconnect x => Ok (if x =? id then disconnect_with c RDisconnectedByServer else c)
  | SDisconnectAll => Ok (disconnect_with c RDisconnectedByServer)
  | SBroadcast ch m => send_message c ch m
  | SBroadcastExcept x ch m => if x =? id then Ok c else send_message c ch m
  | SSend x ch m => if x =? id then send_message c ch m else Ok c
  | SRecv x ch => if x =? id then (do r <- receive_message c ch; Ok (fst r)) else Ok c
  | SUpdate dt => update c dt
  | SFlush x => if x =? id then (do r <- get_packets_to_send c; Ok (fst r)) else Ok c
  | SProcess x b => if x =? id then process_packet c b else Ok c
  end.

(* calls that create or remove the connection object of [id] *)
Definition touches_presence (o : sop) (id : N) : bool :=
  match o with SAdd x | SRemove x => x =? id | _ => false end.
