(* NetSpec.v - specification-level definitions for the renetcode theorems. Definitions only. *)
From RenetV Require Import Base Consts Aead NPacket Token NServer NClient.
Open Scope N_scope.

Definition bytes_ok (l : list N) : Prop := Forall (fun b => b < 256) l.

(* ---------- replay window ---------- *)
Definition rp_wf (r : replay) : Prop := length (rp_slots r) = N.to_nat NC_REPLAY_SIZE.

(* what Packet::decode does with a replay protected packet that authenticates *)
Definition rp_accept (r : replay) (s : N) : replay * bool :=
  if already_received r s then (r, false) else (advance_sequence r s, true).

(* feed a list of (authentic) sequence numbers; returns the accepted ones in order *)
Fixpoint rp_run (r : replay) (ss : list N) : replay * list N :=
  match ss with
  | [] => (r, [])
  | s :: t =>
      let (r1, ok) := rp_accept r s in
      let (r2, acc) := rp_run r1 t in
      (r2, if ok then s :: acc else acc)
  end.

(* ---------- packets ---------- *)
Definition npacket_wf (p : npacket) : Prop :=
  match p with
  | PRequest v protocol expire xn data =>
      len v = 13 /\ protocol < U64 /\ expire < U64 /\ len xn = NC_XNONCE_BYTES /\ len data = NC_PRIVATE_BYTES
  | PChallenge ts td | PResponse ts td => ts < U64 /\ len td = NC_CHALLENGE_BYTES
  | PKeepAlive ci mc => ci < 4294967296 /\ mc < 4294967296
  | PPayload _ | PDenied | PDisconnect => True
  end.

Definition dgram_type (buf : list N) : N := match buf with [] => 0 | p :: _ => p mod 16 end.

(* the datagram is a sealed packet that opens under key *)
Definition opens_sealed (key : list N) (protocol : N) (buf : list N) : Prop :=
  dgram_type buf <> 0 /\ exists s p, snd (decode buf protocol (Some key) None) = Ok (s, p).

(* ---------- tokens ---------- *)
Definition addr_wf (a : addr) : Prop :=
  match a with
  | AddrV4 ip p => len ip = 4 /\ bytes_ok ip /\ p < 65536
  | AddrV6 ip p => len ip = 16 /\ bytes_ok ip /\ p < 65536
  end.

(* 32 slots, the addresses packed at the front, at least one *)
Definition slots_wf (l : list (option addr)) : Prop :=
  exists addrs, l = pad_slots (map Some addrs) /\ 1 <= len addrs /\ len addrs <= 32 /\ Forall addr_wf addrs.

Definition private_wf (t : private_token) : Prop :=
  pt_client_id t < U64 /\ (-2147483648 <= pt_timeout t < 2147483648)%Z /\ slots_wf (pt_addrs t) /\
  len (pt_c2s t) = NC_KEY_BYTES /\ len (pt_s2c t) = NC_KEY_BYTES /\ len (pt_user t) = NC_USER_DATA_BYTES.

Definition token_wf (t : connect_token) : Prop :=
  ct_client_id t < U64 /\ ct_version t = NC_VERSION_INFO /\ ct_protocol t < U64 /\ ct_create t < U64 /\
  ct_expire t < U64 /\ len (ct_xnonce t) = NC_XNONCE_BYTES /\ slots_wf (ct_addrs t) /\
  len (ct_c2s t) = NC_KEY_BYTES /\ len (ct_s2c t) = NC_KEY_BYTES /\ len (ct_private t) = NC_PRIVATE_BYTES /\
  (-2147483648 <= ct_timeout t < 2147483648)%Z.

(* ---------- server ---------- *)
Fixpoint some_list {A} (l : list (option A)) : list A :=
  match l with [] => [] | Some x :: t => x :: some_list t | None :: t => some_list t end.

Definition connected (s : nserver) : list nconn := some_list (ns_clients s).

Fixpoint distinct_by {A} (eqb : A -> A -> bool) (l : list A) : Prop :=
  match l with [] => True | x :: t => (forall y, In y t -> eqb x y = false) /\ distinct_by eqb t end.

(* the connection table invariant *)
Definition table_inv (s : nserver) : Prop :=
  distinct_by N.eqb (map nc_id (connected s)) /\
  distinct_by addr_eqb (map nc_addr (connected s)) /\
  distinct_by addr_eqb (map fst (ns_pending s)) /\
  (forall a c, In (a, c) (ns_pending s) -> nc_addr c = a /\ find_by_addr s a = None) /\
  Forall (fun c => rp_wf (nc_replay c)) (connected s) /\
  Forall (fun ac => rp_wf (nc_replay (snd ac))) (ns_pending s).

(* one call of the server API *)
Inductive nsop :=
| NSProcess (a : addr) (buf : list N)
| NSUpdate (dt : N)
| NSUpdateClient (id : N)
| NSDisconnect (id : N)
| NSPayload (id : N) (payload : list N)
| NSSetMax (m : N).

Inductive nsout :=
| NOResult (r : sresult)
| NOPayloadPacket (r : nres (addr * list N))
| NONothing.

Definition nsstep (s : nserver) (o : nsop) : nres (nserver * nsout) :=
  match o with
  | NSProcess a buf => do r <- process_packet s a buf; Ok (fst r, NOResult (snd r))
  | NSUpdate dt => Ok (nserver_update s dt, NONothing)
  | NSUpdateClient id => do r <- update_client s id; Ok (fst r, NOResult (snd r))
  | NSDisconnect id => do r <- nserver_disconnect s id; Ok (fst r, NOResult (snd r))
  | NSPayload id p => let (s', r) := generate_payload_packet s id p in
                      match r with Panic x => Panic x | _ => Ok (s', NOPayloadPacket r) end
  | NSSetMax m => Ok (set_max_clients s m, NONothing)
  end.

Fixpoint nsrun (s : nserver) (ops : list nsop) : nres (nserver * list nsout) :=
  match ops with
  | [] => Ok (s, [])
  | o :: t =>
      do r <- nsstep s o;
      let (s1, out) := r in
      do r2 <- nsrun s1 t;
      let (s2, outs) := r2 in
      Ok (s2, out :: outs)
  end.

(* a connection request datagram whose private part opens under the server's key and passes every check
   of handle_request that precedes any state change *)
Definition request_validates (s : nserver) (buf : list N) (t : private_token) (expire : N) : Prop :=
  exists v protocol xn data,
    snd (decode buf (ns_protocol s) None None) = Ok (0, PRequest v protocol expire xn data) /\
    v = NC_VERSION_INFO /\ protocol = ns_protocol s /\ as_secs (ns_now s) < expire /\
    private_decode data (ns_protocol s) expire xn (ns_connect_key s) = Ok t /\
    (ns_secure s = true -> in_host_list s t = true).

(* the datagram is authentic for the session (connected or pending) that lives at address a *)
Definition authentic_for (s : nserver) (a : addr) (buf : list N) : Prop :=
  (exists slot c, find_by_addr s a = Some (slot, c) /\ opens_sealed (nc_recv_key c) (ns_protocol s) buf) \/
  (find_by_addr s a = None /\ exists pc, pend_find a (ns_pending s) = Some pc /\ opens_sealed (nc_recv_key pc) (ns_protocol s) buf).

(* sequence number written in the clear in a sealed datagram *)
Definition dgram_seq (buf : list N) : N :=
  match buf with
  | [] => 0
  | p :: rest => le_val (takeN (p / 16) rest)
  end.

(* ------------------------------------------------------------------ *)
(* additions for Proofs/NAuthP.v (authenticity of the server)          *)
(* ------------------------------------------------------------------ *)

(* the tag of the datagram verifies under key, for the nonce and the associated data that decode derives
   from the datagram's own header (every structural test that precedes the cipher passes).  Weaker than
   opens_sealed: the plaintext need not parse.  Same as dgram_auth of Proofs/NPacketP.v. *)
Definition tag_verifies (key : list N) (protocol : N) (buf : list N) : Prop :=
  match buf with
  | [] => False
  | prefix :: rest =>
      (2 + NC_MAC_BYTES <= len (prefix :: rest) /\ 1 <= prefix mod 16 <= 6 /\ prefix / 16 <= 8 /\
       prefix / 16 <= len rest /\ NC_MAC_BYTES <= len (dropN (prefix / 16) rest)) /\
      aead_open key (nonce_of (dgram_seq buf)) (packet_aad prefix protocol) (dropN (prefix / 16) rest) <> None
  end.

(* authentic_for with "the tag verifies" in place of "opens": what really moves the server *)
Definition tag_authentic_for (s : nserver) (a : addr) (buf : list N) : Prop :=
  (exists slot c, find_by_addr s a = Some (slot, c) /\ tag_verifies (nc_recv_key c) (ns_protocol s) buf) \/
  (find_by_addr s a = None /\ exists pc, pend_find a (ns_pending s) = Some pc /\ tag_verifies (nc_recv_key pc) (ns_protocol s) buf).

(* the five checks of handle_request that precede any state change, on the fields of a request packet *)
Definition request_checks (s : nserver) (v : list N) (protocol expire : N) (xn data : list N) (t : private_token) : Prop :=
  v = NC_VERSION_INFO /\ protocol = ns_protocol s /\ as_secs (ns_now s) < expire /\
  private_decode data (ns_protocol s) expire xn (ns_connect_key s) = Ok t /\
  (ns_secure s = true -> in_host_list s t = true).

(* the sealed private part carried by a connection request datagram, and its tag (the key of the
   connect token entries) *)
Definition request_data (buf : list N) : list N :=
  match read_packet 0 (tl buf) with
  | Ok (PRequest _ _ _ _ data) => data
  | _ => []
  end.
Definition mac_of (buf : list N) : list N := dropN (NC_PRIVATE_BYTES - NC_MAC_BYTES) (request_data buf).

(* the LAST entry of the connect token table with this tag: the one find_or_add_entry looks at *)
Fixpoint last_match (es : list (option token_entry)) (mac : list N) : option token_entry :=
  match es with
  | [] => None
  | Some e :: t =>
      match last_match t mac with
      | Some m => Some m
      | None => if bytes_eqb (te_mac e) mac then Some e else None
      end
  | None :: t => last_match t mac
  end.

(* what a pending (or connected) entry owes to the private token of the request that created it *)
Definition conn_of_token (c : nconn) (a : addr) (t : private_token) (expire : N) : Prop :=
  nc_id c = pt_client_id t /\ nc_user c = pt_user t /\ nc_recv_key c = pt_c2s t /\ nc_send_key c = pt_s2c t /\
  nc_expire c = expire /\ nc_addr c = a /\ nc_timeout c = pt_timeout t.

(* the k-th call of ops is NSProcess a buf, made in state s1 = the state after the first k calls *)
Definition call_at (s0 : nserver) (ops : list nsop) (k : nat) (s1 : nserver) (a : addr) (buf : list N) : Prop :=
  nth_error ops k = Some (NSProcess a buf) /\ exists outs1, nsrun s0 (firstn k ops) = Ok (s1, outs1).

(* every pending entry was created by a validated request from its address, earlier in the run *)
Definition pending_valid (s0 : nserver) (ops : list nsop) (s : nserver) : Prop :=
  forall a pc, In (a, pc) (ns_pending s) ->
    exists k s1 buf0 t ex, call_at s0 ops k s1 a buf0 /\ request_validates s1 buf0 t ex /\ conn_of_token pc a t ex.
