(* RecvSpec.v - specification-level definitions for the receive side:
   slicing, honest receiver events, executions that collect what the application obtains,
   and the memory-accounting invariants. Definitions only. *)
From RenetV Require Import Base Consts Varint Packet Channels.
Open Scope N_scope.

(* ---------- slicing (what an honest sender puts into slice packets) ---------- *)
Definition num_slices_of (m : list N) : N := div_ceil (len m) SLICE_SIZE.

Definition slice_payload (m : list N) (i : N) : list N :=
  let n := num_slices_of m in
  let s := i * SLICE_SIZE in
  let e := if i =? n - 1 then len m else (i + 1) * SLICE_SIZE in
  takeN (e - s) (dropN s m).

Definition slice_of (m : list N) (id i : N) : slice :=
  {| sl_id := id; sl_index := i; sl_num := num_slices_of m; sl_payload := slice_payload m i |}.

Definition msg_at (sent : list (list N)) (id : N) : option (list N) := nth_error sent (N.to_nat id).

(* ---------- events at a reliable receive channel fed by an honest sender ---------- *)
(* sent = the messages the sending application submitted on this channel, message id = index *)
Inductive rev :=
| RSmall (id : N)          (* a small-message entry (id, sent[id]) arrives *)
| RSlice (id idx : N)      (* slice idx of sent[id] arrives *)
| RRecv.                   (* the application calls receive_message *)

Definition rev_ok (sent : list (list N)) (e : rev) : Prop :=
  match e with
  | RSmall id => exists m, msg_at sent id = Some m /\ len m <= SLICE_SIZE
  | RSlice id idx => exists m, msg_at sent id = Some m /\ SLICE_SIZE < len m /\ idx < num_slices_of m
  | RRecv => True
  end.

(* the id receive_message is about to hand over *)
Definition next_id (r : recv_rel) : option N :=
  match rr_order r with
  | Ordered => if sm_mem (rr_oldest r) (rr_messages r) then Some (rr_oldest r) else None
  | Unordered _ _ => match rr_messages r with (id, _) :: _ => Some id | [] => None end
  end.

(* one event; the output is what the application obtained, tagged with its id *)
Definition rr_step (sent : list (list N)) (r : recv_rel) (e : rev) : cres (recv_rel * option (N * list N)) :=
  match e with
  | RSmall id =>
      match msg_at sent id with
      | Some m => do r' <- rr_process_message r m id; Ok (r', None)
      | None => Ok (r, None)
      end
  | RSlice id idx =>
      match msg_at sent id with
      | Some m => do r' <- rr_process_slice r (slice_of m id idx); Ok (r', None)
      | None => Ok (r, None)
      end
  | RRecv =>
      do x <- rr_receive r;
      let (r', o) := x in
      Ok (r', match o, next_id r with Some m, Some id => Some (id, m) | _, _ => None end)
  end.

(* run until the end or until the channel reports an error (the connection is then dead);
   returns the last state, everything obtained so far in order, and whether it stopped early *)
Fixpoint rr_exec (sent : list (list N)) (r : recv_rel) (evs : list rev) (outs : list (N * list N))
  : recv_rel * list (N * list N) * bool :=
  match evs with
  | [] => (r, outs, false)
  | e :: t =>
      match rr_step sent r e with
      | Ok (r', o) => rr_exec sent r' t (match o with Some x => outs ++ [x] | None => outs end)
      | _ => (r, outs, true)
      end
  end.

(* every part of message id has arrived somewhere in the event list *)
Definition complete_in (sent : list (list N)) (evs : list rev) (id : N) : Prop :=
  match msg_at sent id with
  | None => False
  | Some m =>
      if len m <=? SLICE_SIZE then In (RSmall id) evs
      else forall idx, idx < num_slices_of m -> In (RSlice id idx) evs
  end.

(* ---------- sortedness of the association lists standing for BTreeMap / BTreeSet ---------- *)
(* strictly ascending: sm_insert / sm_remove / ss_* behave like a map / set only on such lists *)
Fixpoint asc (l : list N) : Prop :=
  match l with
  | [] => True
  | k :: t => Forall (fun k' => k < k') t /\ asc t
  end.

(* "this id was already accepted": exactly the test rr_process_message performs *)
Definition rr_seen (r : recv_rel) (id : N) : bool :=
  (id <? rr_oldest r) ||
  match rr_order r with
  | Ordered => sm_mem id (rr_messages r)
  | Unordered _ rcv => ss_mem id rcv
  end.

(* ---------- memory accounting ---------- *)
Definition msgs_bytes (ms : list (N * list N)) : N := sum (map (fun im => len (snd im)) ms).
Definition ctors_bytes (cs : list (N * sctor)) : N := sum (map (fun ic => sc_num (snd ic) * SLICE_SIZE) cs).

Definition sctor_wf (c : sctor) : Prop :=
  1 <= sc_num c /\ length (sc_chunks c) = N.to_nat (sc_num c) /\
  sc_nrecv c = len (filter (fun o => match o with Some _ => true | None => false end) (sc_chunks c)) /\
  sc_nrecv c < sc_num c /\
  (forall i ch, nth_error (sc_chunks c) i = Some (Some ch) -> len ch <= SLICE_SIZE).

(* invariant of a reliable receive channel under ARBITRARY (also hostile) input *)
Definition rr_inv (r : recv_rel) : Prop :=
  rr_mem r = msgs_bytes (rr_messages r) + ctors_bytes (rr_slices r) /\
  rr_mem r <= rr_max r /\
  Forall (fun ic => sctor_wf (snd ic)) (rr_slices r) /\
  asc (map fst (rr_slices r)) /\
  asc (map fst (rr_messages r)) /\
  match rr_order r with
  | Ordered => True
  | Unordered _ rcv =>
      asc rcv /\
      (* a message waiting in the buffer has been entered in the received set or passed by the cursor *)
      (forall id, sm_mem id (rr_messages r) = true -> rr_seen r id = true)
  end.

Definition lasts_bytes (ms : list (list N)) : N := sum (map len ms).

Definition ru_inv (now : N) (r : recv_unrel) : Prop :=
  ru_mem r = lasts_bytes (ru_messages r) + ctors_bytes (ru_slices r) /\
  ru_mem r <= ru_max r /\
  Forall (fun ic => sctor_wf (snd ic)) (ru_slices r) /\
  (forall id, sm_mem id (ru_last r) = true -> sm_mem id (ru_slices r) = true) /\
  (forall id t, sm_find id (ru_last r) = Some t -> t <= now) /\
  asc (map fst (ru_slices r)) /\
  asc (map fst (ru_last r)).

(* arbitrary slices as the decoder can produce them *)
Definition slice_decoded (s : slice) : Prop := 1 <= sl_num s /\ sl_num s <= MAX_NUM_SLICES.

(* ---------- reassembly of one message from its own slices ---------- *)
(* feed slice indices (any order, duplicates allowed) until the constructor completes *)
Fixpoint ctor_feed (m : list N) (c : sctor) (idxs : list N) : cres (option (list N)) :=
  match idxs with
  | [] => Ok None
  | i :: t =>
      do r <- sctor_process c i (slice_payload m i);
      let (c', o) := r in
      match o with Some x => Ok (Some x) | None => ctor_feed m c' t end
  end.

Definition covers (n : N) (idxs : list N) : Prop := forall i, i < n -> In i idxs.

(* 0, 1, ..., n-1 *)
Definition iota (n : N) : list N := map N.of_nat (seq 0 (N.to_nat n)).
