(* RLiveSpec.v - liveness of the reliable channels in the two-endpoint system (Spec/RSysSpec.v):
   a "good tick" (a tick during which the network delivers everything, in order, and both
   applications poll their channels), the work left for the direction A -> B, and the number of
   good ticks after which everything submitted has been obtained.  Definitions only; every
   definition is executable and built from sys_step; the theorems are in Proofs/RLiveP.v. *)
From RenetV Require Import Base Consts Varint Packet Channels Conn.
From RenetV Require Import CodecSpec RecvSpec SendSpec ConnSpec ConnInvSpec RSysSpec RSysInvSpec.
Open Scope N_scope.

(* the drain loop ran out of fuel (Proofs/RLiveP.v, drain_chan_fuel_suffices: it never does) *)
Definition SITE_DRAIN_FUEL : N := 900.

Definition out_of (s : rsys) (x : side) : list (list N) := match x with SA => out_a s | SB => out_b s end.
Definition got_of (s : rsys) (x : side) : chan_log := match x with SA => got_a s | SB => got_b s end.

(* ---------- the network hands over, in order, the packets i, i+1, ..., i+n-1 of the peer ---------- *)
Fixpoint deliver_from (to : side) (i n : nat) (s : rsys) : pres rsys :=
  match n with
  | O => Ok s
  | S k => do s1 <- sys_step s (SysDeliver to i); deliver_from to (S i) k s1
  end.

(* side x calls get_packets_to_send; every packet of this call reaches the peer, in emission order *)
Definition flush_deliver (x : side) (s : rsys) : pres rsys :=
  let n0 := length (out_of s x) in
  do s1 <- sys_step s (SysApi x CFlush);
  deliver_from (flip_side x) n0 (length (out_of s1 x) - n0) s1.

(* ---------- the application of side x polls a channel until receive_message returns None ---------- *)
(* messages waiting in the receive channel: each successful receive_message removes one *)
Definition buffered (c : conn) (ch : N) : nat :=
  match sm_find ch (c_rr c), sm_find ch (c_ru c) with
  | Some r, _ => length (rr_messages r)
  | None, Some r => length (ru_messages r)
  | None, None => O
  end.

(* a call returned None iff the log of obtained messages did not grow *)
Fixpoint drain_chan (fuel : nat) (x : side) (ch : N) (s : rsys) : pres rsys :=
  match fuel with
  | O => Panic SITE_DRAIN_FUEL
  | S f =>
      do s1 <- sys_step s (SysApi x (CRecv ch));
      if Nat.eqb (length (log_get (got_of s1 x) ch)) (length (log_get (got_of s x) ch)) then Ok s1
      else drain_chan f x ch s1
  end.

Fixpoint drain_chans (x : side) (chs : list N) (s : rsys) : pres rsys :=
  match chs with
  | [] => Ok s
  | ch :: t => do s1 <- drain_chan (S (buffered (conn_of s x) ch)) x ch s; drain_chans x t s1
  end.

Definition recv_channels (c : conn) : list N := map fst (c_rr c) ++ map fst (c_ru c).

Definition drain (x : side) (s : rsys) : pres rsys := drain_chans x (recv_channels (conn_of s x)) s.

(* ---------- one good tick ---------- *)
Definition good_tick (s : rsys) (dt : N) : pres rsys :=
  do s1 <- sys_step s (SysApi SA (CUpdate dt));
  do s2 <- sys_step s1 (SysApi SB (CUpdate dt));
  do s3 <- flush_deliver SA s2;       (* A transmits, B receives everything *)
  do s4 <- drain SB s3;               (* B's application polls every channel *)
  do s5 <- flush_deliver SB s4;       (* B transmits (its Ack packet last), A receives everything *)
  drain SA s5.                        (* A's application polls every channel *)

Fixpoint good_ticks (k : nat) (s : rsys) (dt : N) : pres rsys :=
  match k with
  | O => Ok s
  | S k' => do s1 <- good_tick s dt; good_ticks k' s1 dt
  end.

(* ---------- the work left for the direction A -> B ---------- *)
(* parts not yet acknowledged: a small message is one part, a sliced message one part per slice *)
Definition unacked_left (u : unacked) : N :=
  match u with
  | USmall _ _ => 1
  | USliced _ _ _ _ acked _ => len (filter negb acked)
  end.

Definition sr_outstanding (s : send_rel) : N := sum (map (fun iu => unacked_left (snd iu)) (sr_unacked s)).

Definition conn_outstanding (c : conn) : N := sum (map (fun e => sr_outstanding (snd e)) (c_sr c)).

Definition outstanding (s : rsys) : N := conn_outstanding (ra s).

(* ---------- conditions on the tick ---------- *)
(* dt is at least the resend time of every configured reliable channel *)
Definition cfg_resends (cfg : list chan_config) : list N :=
  flat_map (fun c => match cc_type c with TUnreliable => [] | TReliableOrdered r | TReliableUnordered r => [r] end) cfg.

Definition cfg_resend_le (cfg : list chan_config) (dt : N) : bool := forallb (fun r => r <=? dt) (cfg_resends cfg).

(* bytes waiting in the send channels, summed in channel_send_order order (every send channel is
   listed there exactly once, Proofs/RLiveBaseP.v order_inv); a queued unreliable message is
   sent, or dropped, at the next flush *)
Definition chan_bytes (c : conn) (e : bool * N) : N :=
  if fst e
  then match sm_find (snd e) (c_sr c) with Some s => sr_mem s | None => 0 end
  else match sm_find (snd e) (c_su c) with Some s => su_mem s | None => 0 end.

Definition pending_bytes (c : conn) : N := sum (map (chan_bytes c) (c_order c)).

(* L1: the budget of one tick covers everything that is waiting, plus one slice of slack
   (a slice is only sent while at least SLICE_SIZE bytes of budget are left) *)
Definition budget_suffices (c : conn) : bool := pending_bytes c + SLICE_SIZE <=? c_budget c.

(* unreliable messages queued at A share the budget of the NEXT flush only *)
Definition unrel_queued (c : conn) : bool :=
  existsb (fun e => match su_queue (snd e) with [] => false | _ => true end) (c_su c).

(* parts transmitted per tick, at least: one per SLICE_SIZE bytes of budget *)
Definition parts_per_tick (c : conn) : N := c_budget c / SLICE_SIZE.

(* L2: good ticks after which nothing is outstanding and everything has been obtained:
   one tick to get rid of queued unreliable messages (they may use up the budget of the first
   flush), then at least parts_per_tick parts per tick; the last division step also covers the
   tick in which B's application polls *)
Definition ticks_needed (s : rsys) : nat :=
  N.to_nat ((if unrel_queued (ra s) then 1 else 0) + outstanding s / parts_per_tick (ra s) + 1).

Definition alive (s : rsys) : bool := negb (is_disconnected (ra s)) && negb (is_disconnected (rb s)).
