(* RMultSpec.v - multiplicity on an Unreliable channel of the two-endpoint system (RSysSpec.v):
   how many copies of a message the network delivered, the bound on the number of times the
   receiving application can obtain it, and the accounting invariant (a potential function over
   the unreliable receive channel) that proves the bound.  Definitions only; the theorems are in
   Proofs/RMultP.v. *)
From RenetV Require Import Base Consts Varint Packet Channels Conn.
From RenetV Require Import CodecSpec RecvSpec SendSpec ConnSpec ConnInvSpec RSysSpec RSysInvSpec.
Open Scope N_scope.

Definition msg_eq_dec : forall a b : list N, {a = b} + {a <> b} := list_eq_dec N.eq_dec.

(* number of occurrences of m in a list of messages *)
Definition occ (l : list (list N)) (m : list N) : nat := count_occ msg_eq_dec l m.

(* ---------- what one serialised packet carries ---------- *)
(* occurrences of m among the messages of a SmallUnreliable packet of channel ch *)
Definition pkt_small (ch : N) (m : list N) (bytes : list N) : nat :=
  match from_bytes bytes with
  | Ok (SmallUnreliable _ c ms) => if c =? ch then occ ms m else 0%nat
  | _ => 0%nat
  end.

(* the slice carried by the packet is slice idx of m (same index, same slice count, same bytes) *)
Definition slice_is (m : list N) (idx : N) (sl : slice) : bool :=
  (sl_index sl =? idx) && (sl_num sl =? num_slices_of m) &&
  (if msg_eq_dec (sl_payload sl) (slice_payload m idx) then true else false).

(* 1 if the packet is an UnreliableSlice packet of channel ch carrying slice idx of m *)
Definition pkt_slice (ch : N) (m : list N) (idx : N) (bytes : list N) : nat :=
  match from_bytes bytes with
  | Ok (UnreliableSlice _ c sl) => if (c =? ch) && slice_is m idx sl then 1%nat else 0%nat
  | _ => 0%nat
  end.

(* sum of f over the delivered packets: dlv lists indices of oa, with multiplicity *)
Definition dlv_sum (f : list N -> nat) (oa : list (list N)) (dlv : list nat) : nat :=
  list_sum (map (fun i => match nth_error oa i with Some b => f b | None => 0%nat end) dlv).

(* ---------- the three quantities of the statement ---------- *)
(* the number of (delivery, position) pairs at which m was handed over in a SmallUnreliable packet *)
Definition small_copies (oa : list (list N)) (dlv : list nat) (ch : N) (m : list N) : nat :=
  dlv_sum (pkt_small ch m) oa dlv.

(* the number of deliveries of packets carrying slice idx of m *)
Definition slice_copies (oa : list (list N)) (dlv : list nat) (ch : N) (m : list N) (idx : N) : nat :=
  dlv_sum (pkt_slice ch m idx) oa dlv.

Definition min_list (l : list nat) : nat :=
  match l with [] => 0%nat | x :: t => fold_left Nat.min t x end.

Definition copies_bound (oa : list (list N)) (dlv : list nat) (ch : N) (m : list N) : nat :=
  if len m <=? SLICE_SIZE then small_copies oa dlv ch m
  else min_list (map (slice_copies oa dlv ch m) (iota (num_slices_of m))).

(* ---------- the potential function over an unreliable receive channel ---------- *)
(* the open slice constructor c holds slice idx of m (and expects as many slices as m has) *)
Definition ctor_holds (m : list N) (idx : N) (c : sctor) : bool :=
  (sc_num c =? num_slices_of m) &&
  match nth_error (sc_chunks c) (N.to_nat idx) with
  | Some (Some x) => if msg_eq_dec x (slice_payload m idx) then true else false
  | _ => false
  end.

(* number of partial reassemblies holding slice idx of m *)
Definition ctor_cnt (sl : list (N * sctor)) (m : list N) (idx : N) : nat :=
  length (filter (fun e => ctor_holds m idx (snd e)) sl).

(* accounting for one receive channel: what the application obtained (got), plus what waits in
   the queue, plus (sliced messages, per slice index) the partial reassemblies holding that slice,
   is covered by distinct deliveries *)
Definition acct (got : list (list N)) (r : recv_unrel) (oa : list (list N)) (dlv : list nat) (ch : N) : Prop :=
  forall m,
    (len m <= SLICE_SIZE ->
       (occ got m + occ (ru_messages r) m <= small_copies oa dlv ch m)%nat) /\
    (SLICE_SIZE < len m -> forall idx, idx < num_slices_of m ->
       (occ got m + occ (ru_messages r) m + ctor_cnt (ru_slices r) m idx <= slice_copies oa dlv ch m idx)%nat).

(* a SmallUnreliable packet only carries messages that are not sliced *)
Definition small_sz (p : packet) : Prop :=
  match p with SmallUnreliable _ _ ms => Forall (fun m => len m <= SLICE_SIZE) ms | _ => True end.

Definition small_out_ok (oa : list (list N)) : Prop :=
  forall bytes p, In bytes oa -> from_bytes bytes = Ok p -> small_sz p.

(* the invariant of the direction A -> B: the receive channels of B that are served by an
   unreliable channel (no reliable receive channel has the same id, see RMultP.v for why this
   matters) account for the deliveries *)
Definition mult_inv (s : rsys) : Prop :=
  small_out_ok (out_a s) /\
  forall ch, sm_find ch (c_rr (rb s)) = None ->
    match sm_find ch (c_ru (rb s)) with
    | None => log_get (got_b s) ch = []
    | Some r => acct (log_get (got_b s) ch) r (out_a s) (dlv_b s) ch
    end.

(* ---------- the hypothesis of the at-most-once corollary ---------- *)
(* over everything A ever emitted: the number of packets (positions in packets) carrying m,
   resp. slice idx of m *)
Definition out_small_total (oa : list (list N)) (ch : N) (m : list N) : nat :=
  list_sum (map (pkt_small ch m) oa).
Definition out_slice_total (oa : list (list N)) (ch : N) (m : list N) (idx : N) : nat :=
  list_sum (map (pkt_slice ch m idx) oa).

(* A's output carries m at most once: one position of one SmallUnreliable packet, or (sliced
   message) some slice of m is carried by at most one packet *)
Definition carried_once (oa : list (list N)) (ch : N) (m : list N) : Prop :=
  if len m <=? SLICE_SIZE then (out_small_total oa ch m <= 1)%nat
  else exists idx, idx < num_slices_of m /\ (out_slice_total oa ch m idx <= 1)%nat.

(* ---------- the sender side: what A's output carries, against what A's application submitted ---------- *)
(* m' is sliced and its slice idx is byte for byte slice idx of m (same slice count) *)
Definition shares (m : list N) (idx : N) (m' : list N) : bool :=
  (SLICE_SIZE <? len m') && (idx <? num_slices_of m') && (num_slices_of m' =? num_slices_of m) &&
  (if msg_eq_dec (slice_payload m' idx) (slice_payload m idx) then true else false).

(* how many of the messages of l have slice idx of m as their own slice idx *)
Definition share_cnt (l : list (list N)) (m : list N) (idx : N) : nat := length (filter (shares m idx) l).

Definition qocc (su : list (N * send_unrel)) (ch : N) (m : list N) : nat :=
  match sm_find ch su with Some s => occ (su_queue s) m | None => 0%nat end.
Definition qshare (su : list (N * send_unrel)) (ch : N) (m : list N) (idx : N) : nat :=
  match sm_find ch su with Some s => share_cnt (su_queue s) m idx | None => 0%nat end.

(* every carried copy (and every copy still queued) is a distinct submission *)
Definition carry_inv (s : rsys) : Prop :=
  forall ch m,
    (out_small_total (out_a s) ch m + qocc (c_su (ra s)) ch m <= occ (log_get (sent_a s) ch) m)%nat /\
    forall idx,
      (out_slice_total (out_a s) ch m idx + qshare (c_su (ra s)) ch m idx <=
       share_cnt (log_get (sent_a s) ch) m idx)%nat.
