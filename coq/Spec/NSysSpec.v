(* NSysSpec.v - the two-party netcode system: one honest client and the server, joined by a network
   that loses and duplicates datagrams.  Definitions only; the theorems are in Proofs/NSysP.v. *)
From RenetV Require Import Base Consts Aead NPacket Token NServer NClient.
From RenetV Require Import Spec.NetSpec.
Open Scope N_scope.

(* ------------------------------------------------------------------ *)
(* 1. the system and one tick of it                                    *)
(* ------------------------------------------------------------------ *)
Record nsys := {
  sy_client : nclient;
  sy_server : nserver;
  sy_addr : addr;          (* the source address of the client's datagrams, as the server sees it *)
}.

(* what the network does with one datagram *)
Inductive fate := Lost | Once | Twice.

Definition copies (f : fate) : nat := match f with Lost => 0 | Once => 1 | Twice => 2 end.

(* the server listens on its public addresses: a datagram sent elsewhere never reaches it *)
Definition dest_ok (s : nserver) (dest : addr) : bool := existsb (addr_eqb dest) (ns_addrs s).

(* n copies of the datagram d from address a are handed to the server, one after the other *)
Fixpoint feed (n : nat) (s : nserver) (a : addr) (d : list N) : nres (nserver * list sresult) :=
  match n with
  | O => Ok (s, [])
  | S k =>
      do r <- process_packet s a d;
      let (s1, x) := r in
      do r2 <- feed k s1 a d;
      let (s2, xs) := r2 in
      Ok (s2, x :: xs)
  end.

(* the datagrams that a server result asks the transport to send to address a *)
Definition reply_to (a : addr) (r : sresult) : list (list N) :=
  match r with
  | SRPacketToSend a' d => if addr_eqb a' a then [d] else []
  | SRConnected _ a' _ d => if addr_eqb a' a then [d] else []
  | SRDisconnected _ a' (Some d) => if addr_eqb a' a then [d] else []
  | _ => []
  end.

(* n copies of the datagram d are handed to the client (payloads are not looked at: this is the handshake) *)
Fixpoint deliver (n : nat) (c : nclient) (d : list N) : nclient :=
  match n with
  | O => c
  | S k => deliver k (fst (nclient_process_packet c d)) d
  end.

Definition deliver_all (n : nat) (c : nclient) (ds : list (list N)) : nclient :=
  fold_left (deliver n) ds c.

(* One tick of length dt.
   - the server is updated: NetcodeServer::update (nserver_update), then NetcodeServer::update_client for
     this client's id, the call that sends the periodic keep-alive (see round_lit below for the tick
     without it, and Proofs/NSysP.v for what fails then);
   - the client is updated; the datagram it emits, if any, goes to the address it is talking to; when
     that is one of the server's addresses the network hands it to process_packet (source address a)
     zero, one or two times (fate fc);
   - every datagram the server returned for a in this tick is handed to the client zero, one or two
     times (fate fs), in the order in which the server produced them.
   Returns the new system and the server results of the tick. *)
Definition round (y : nsys) (dt : N) (fc fs : fate) : nres (nsys * list sresult) :=
  let a := sy_addr y in
  let s1 := nserver_update (sy_server y) dt in
  do r0 <- update_client s1 (cl_id (sy_client y));
  let (s2, k) := r0 in
  do r1 <- nclient_update (sy_client y) dt;
  let (c1, o) := r1 in
  do r2 <- (match o with
            | Some (d, dest) => if dest_ok s2 dest then feed (copies fc) s2 a d else Ok (s2, [])
            | None => Ok (s2, [])
            end);
  let (s3, rs) := r2 in
  let results := k :: rs in
  let c2 := deliver_all (copies fs) c1 (flat_map (reply_to a) results) in
  Ok ({| sy_client := c2; sy_server := s3; sy_addr := a |}, results).

Definition good_round (y : nsys) (dt : N) : nres (nsys * list sresult) := round y dt Once Once.

Fixpoint run_rounds (y : nsys) (l : list (N * fate * fate)) : nres (nsys * list (list sresult)) :=
  match l with
  | [] => Ok (y, [])
  | (dt, fc, fs) :: t =>
      do r <- round y dt fc fs;
      let (y1, rs) := r in
      do r2 <- run_rounds y1 t;
      let (y2, rss) := r2 in
      Ok (y2, rs :: rss)
  end.

(* the tick read literally: only NetcodeServer::update on the server side *)
Definition round_lit (y : nsys) (dt : N) (fc fs : fate) : nres (nsys * list sresult) :=
  let a := sy_addr y in
  let s2 := nserver_update (sy_server y) dt in
  do r1 <- nclient_update (sy_client y) dt;
  let (c1, o) := r1 in
  do r2 <- (match o with
            | Some (d, dest) => if dest_ok s2 dest then feed (copies fc) s2 a d else Ok (s2, [])
            | None => Ok (s2, [])
            end);
  let (s3, rs) := r2 in
  let c2 := deliver_all (copies fs) c1 (flat_map (reply_to a) rs) in
  Ok ({| sy_client := c2; sy_server := s3; sy_addr := a |}, rs).

Fixpoint run_rounds_lit (y : nsys) (l : list (N * fate * fate)) : nres (nsys * list (list sresult)) :=
  match l with
  | [] => Ok (y, [])
  | (dt, fc, fs) :: t =>
      do r <- round_lit y dt fc fs;
      let (y1, rs) := r in
      do r2 <- run_rounds_lit y1 t;
      let (y2, rss) := r2 in
      Ok (y2, rs :: rss)
  end.

(* how often a tick reported ClientConnected *)
Definition is_connected_event (r : sresult) : bool := match r with SRConnected _ _ _ _ => true | _ => false end.
Definition count_connected (rs : list sresult) : nat := length (filter is_connected_event rs).

(* ------------------------------------------------------------------ *)
(* 2. a connect token that THIS server accepts from address a          *)
(* ------------------------------------------------------------------ *)

(* the connection request datagram that the client builds from its token *)
Definition token_dgram (tok : connect_token) : list N :=
  0 :: NC_VERSION_INFO ++ le64 (ct_protocol tok) ++ le64 (ct_expire tok) ++ ct_xnonce tok ++ ct_private tok.

(* the public copy of the session parameters is the sealed one (an honestly generated token) *)
Definition token_consistent (tok : connect_token) (t : private_token) : Prop :=
  ct_client_id tok = pt_client_id t /\ ct_c2s tok = pt_c2s t /\ ct_s2c tok = pt_s2c t.

(* the connect token table either does not know the tag of the token or binds it to a *)
Definition entry_free_or_bound (s : nserver) (a : addr) (mac : list N) : Prop :=
  match last_match (ns_entries s) mac with None => True | Some m => te_addr m = a end.

(* the numbers that travel as u32 fit (true of every server built by nserver_new, see slots_bound) *)
Definition server_sizes (s : nserver) : Prop :=
  ns_max s <= NC_MAX_CLIENTS /\ len (ns_clients s) <= NC_MAX_CLIENTS.

(* t is the private part of tok, and the server s, at time now, would answer the request built from tok
   and sent from address a with a challenge *)
Definition token_for_server_with (s : nserver) (tok : connect_token) (a : addr) (now : N) (t : private_token) : Prop :=
  token_wf tok /\ private_wf t /\ token_consistent tok t /\
  (* sealed under the server's connect key with its protocol id and the public expiry, not expired at
     now, the server's address in the host list when the server is in secure mode *)
  request_validates (set_now s now) (token_dgram tok) t (ct_expire tok) /\
  (* client id not connected, address neither connected nor pending *)
  find_by_id s (pt_client_id t) = None /\
  find_by_addr s a = None /\ pend_find a (ns_pending s) = None /\
  (* token entry free or bound to a *)
  entry_free_or_bound s a (mac_of (token_dgram tok)) /\
  (* fewer connected clients than the limit, a free slot, room in the pending table *)
  connected_count s < ns_max s /\ first_free (ns_clients s) 0 <> None /\
  len (ns_pending s) < NC_MAX_CLIENTS * NC_MAX_PENDING_FACTOR.

Definition token_for_server (s : nserver) (tok : connect_token) (a : addr) (now : N) : Prop :=
  exists t, token_for_server_with s tok a now t.

(* ------------------------------------------------------------------ *)
(* 3. the side conditions on the elapsed time, as booleans             *)
(* ------------------------------------------------------------------ *)

(* the two tests of NetcodeClient::update, evaluated at now + dt
   (the same as token_expired / timed_out of Proofs/NClientP.v) *)
Definition cl_expired (c : nclient) (dt : N) : bool :=
  ct_expire (cl_token c) - ct_create (cl_token c) <=? as_secs (cl_now c + dt - cl_connect_start c).
Definition cl_timed_out (c : nclient) (dt : N) : bool :=
  (0 <? ct_timeout (cl_token c))%Z &&
  (cl_last_recv c + Z.to_N (ct_timeout (cl_token c)) * NS_PER_SEC <? cl_now c + dt).

(* the server refuses the request: the token's expiry (absolute seconds, the server's clock) is reached *)
Definition srv_expired (s : nserver) (tok : connect_token) (dt : N) : bool :=
  ct_expire tok <=? as_secs (ns_now s + dt).

(* update_client drops the connection: nothing received for the token's time-out *)
Definition srv_timed_out (s : nserver) (id : N) (dt : N) : bool :=
  match find_by_id s id with
  | Some (_, sc) => (0 <? nc_timeout sc)%Z && (nc_last_recv sc + Z.to_N (nc_timeout sc) * NS_PER_SEC <? ns_now s + dt)
  | None => false
  end.

(* a tick of length dt: the token does not expire (on either clock) while the client is connecting,
   and neither side times the other out *)
Definition time_ok (y : nsys) (dt : N) : bool :=
  let c := sy_client y in
  let s := sy_server y in
  (if is_connecting c then negb (cl_expired c dt) && negb (srv_expired s (cl_token c) dt) else true)
  && negb (cl_timed_out c dt) && negb (srv_timed_out s (cl_id c) dt).

(* the sequence numbers stay below 2^64 for n more ticks (the model counts in N, the crate in u64) *)
Definition srv_conn_seq (y : nsys) : N :=
  match find_by_addr (sy_server y) (sy_addr y) with Some (_, sc) => nc_seq sc | None => 0 end.
Definition seq_room (y : nsys) (n : N) : bool :=
  (cl_seq (sy_client y) + n <? U64) && (ns_global_seq (sy_server y) + 2 * n <? U64) &&
  (ns_chal_seq (sy_server y) + 2 * n <? U64) && (srv_conn_seq y + n <? U64).

Definition round_ok (y : nsys) (dt : N) : bool := time_ok y dt && seq_room y 1.

(* the side conditions along a run: checked tick by tick, on the state the run has reached *)
Fixpoint rounds_ok (y : nsys) (l : list (N * fate * fate)) : bool :=
  match l with
  | [] => true
  | (dt, fc, fs) :: t =>
      round_ok y dt &&
      match round y dt fc fs with
      | Ok (y1, _) => rounds_ok y1 t
      | _ => false
      end
  end.

Definition SEND_RATE_NS : N := NC_SEND_RATE_MS * 1000000.

Definition total_time (l : list (N * fate * fate)) : N := sum (map (fun x => fst (fst x)) l).

(* ------------------------------------------------------------------ *)
(* 4. the handshake invariant                                          *)
(* ------------------------------------------------------------------ *)

(* the invariant of Proofs/NClientP.v (client_inv), restated *)
Definition client_wf (c : nclient) : Prop :=
  cl_connect_start c <= cl_now c /\
  cl_last_recv c <= cl_now c /\
  (match cl_last_send c with Some t => t <= cl_now c | None => True end) /\
  rp_wf (cl_replay c) /\
  (is_disconnected c = true \/ cl_addr_index c < 32) /\
  length (ct_addrs (cl_token c)) = 32%nat /\
  len (cl_chal_data c) = NC_CHALLENGE_BYTES.

(* what never changes during a handshake: the client holds a token whose private part t the server
   opens, it talks to one of the server's addresses, and both state machines are well formed *)
Definition sys_static (y : nsys) (t : private_token) : Prop :=
  let c := sy_client y in
  let s := sy_server y in
  let tok := cl_token c in
  token_wf tok /\ private_wf t /\ token_consistent tok t /\
  cl_id c = ct_client_id tok /\ ct_protocol tok = ns_protocol s /\
  private_decode (ct_private tok) (ns_protocol s) (ct_expire tok) (ct_xnonce tok) (ns_connect_key s) = Ok t /\
  (ns_secure s = true -> in_host_list s t = true) /\
  dest_ok s (cl_server_addr c) = true /\
  entry_free_or_bound s (sy_addr y) (mac_of (token_dgram tok)) /\
  client_wf c /\ table_inv s /\ server_sizes s.

(* the challenge token the server issues for t with challenge sequence cseq *)
Definition challenge_data (s : nserver) (t : private_token) (cseq : N) : list N :=
  aead_seal (ns_chal_key s) (nonce_of cseq) [] (challenge_plain (pt_client_id t) (pt_user t)).

(* the pending entry of a was made from t *)
Definition pending_ok (s : nserver) (a : addr) (tok : connect_token) (t : private_token) (pc : nconn) : Prop :=
  conn_of_token pc a t (ct_expire tok) /\ nc_chal_floor pc <= ns_chal_seq s /\
  nc_replay pc = replay_new /\ nc_seq pc = 0.

(* a is not connected, the client id is not connected, and the server would still take one more client *)
Definition slot_open (s : nserver) (a : addr) (t : private_token) : Prop :=
  find_by_addr s a = None /\ find_by_id s (pt_client_id t) = None /\
  connected_count s < ns_max s /\ first_free (ns_clients s) 0 <> None.

(* the connected entry of a was made from t *)
Definition server_conn (s : nserver) (a : addr) (tok : connect_token) (t : private_token) (slot : N) (sc : nconn) : Prop :=
  find_by_addr s a = Some (slot, sc) /\ conn_of_token sc a t (ct_expire tok) /\
  nc_last_send sc <= ns_now s /\ nc_last_recv sc <= ns_now s.

(* (1) the client sends requests; the server has nothing for a, or the pending entry made from the token *)
Definition ph_request (y : nsys) (t : private_token) : Prop :=
  let c := sy_client y in let s := sy_server y in let a := sy_addr y in
  cl_state c = CSendingRequest /\ cl_replay c = replay_new /\ slot_open s a t /\
  match pend_find a (ns_pending s) with
  | None => len (ns_pending s) < NC_MAX_CLIENTS * NC_MAX_PENDING_FACTOR
  | Some pc => pending_ok s a (cl_token c) t pc
  end.

(* (2) the client answers one of the server's challenges; the server has the pending entry *)
Definition ph_response (y : nsys) (t : private_token) : Prop :=
  let c := sy_client y in let s := sy_server y in let a := sy_addr y in
  cl_state c = CSendingResponse /\ cl_replay c = replay_new /\ slot_open s a t /\
  exists pc, pend_find a (ns_pending s) = Some pc /\ pending_ok s a (cl_token c) t pc /\
    nc_chal_floor pc <= cl_chal_seq c /\ cl_chal_seq c < U64 /\
    cl_chal_data c = challenge_data s t (cl_chal_seq c).

(* (3) the server accepted the response, the client has not seen a keep-alive yet *)
Definition ph_accepted (y : nsys) (t : private_token) : Prop :=
  let c := sy_client y in let s := sy_server y in let a := sy_addr y in
  cl_state c = CSendingResponse /\ cl_replay c = replay_new /\ cl_chal_seq c < U64 /\
  exists slot sc, server_conn s a (cl_token c) t slot sc.

(* (4) connected on both sides: same keys (those of t), the client knows its slot *)
Definition ph_connected (y : nsys) (t : private_token) : Prop :=
  let c := sy_client y in let s := sy_server y in let a := sy_addr y in
  cl_state c = CConnected /\
  exists slot sc, server_conn s a (cl_token c) t slot sc /\ cl_client_index c = slot.

(* the invariant, for a known private part t of the client's token *)
Definition hs_inv_with (y : nsys) (t : private_token) : Prop :=
  sys_static y t /\ (ph_request y t \/ ph_response y t \/ ph_accepted y t \/ ph_connected y t).

Definition hs_inv (y : nsys) : Prop := exists t, hs_inv_with y t.

Definition sys_connected (y : nsys) : Prop := exists t, sys_static y t /\ ph_connected y t.

(* how far from connected: the number of good ticks still needed *)
Definition hs_rank (y : nsys) : nat :=
  match cl_state (sy_client y) with
  | CSendingRequest => 2
  | CSendingResponse => 1
  | _ => 0
  end.

(* ------------------------------------------------------------------ *)
(* 5. the side conditions in closed form                               *)
(* ------------------------------------------------------------------ *)

(* A condition on the state a run starts from that is sufficient for time_ok at every tick of a run of
   total length T, whatever the network does: at the end of the run the token has not expired on either
   clock (while the client is connecting), neither side has waited longer than the token's time-out
   since the last datagram it received before the run, and the whole run is not longer than the
   time-out (so that a connection made during the run cannot time out in it). *)
Definition time_budget (y : nsys) (t : private_token) (T : N) : Prop :=
  let c := sy_client y in
  let s := sy_server y in
  (is_connecting c = true -> cl_expired c T = false /\ srv_expired s (cl_token c) T = false) /\
  cl_timed_out c T = false /\ srv_timed_out s (cl_id c) T = false /\
  ((pt_timeout t <= 0)%Z \/ T <= Z.to_N (pt_timeout t) * NS_PER_SEC).

(* ------------------------------------------------------------------ *)
(* 6. fail-over                                                        *)
(* ------------------------------------------------------------------ *)

(* The client is still connecting and the server has not accepted a response: phases (1) and (2) of the
   invariant, without the requirement that the address the client is talking to is one of the server's
   (so that "the first listed server is silent" is covered as well as "every datagram was lost"). *)
Definition hs_waiting (y : nsys) (t : private_token) : Prop :=
  let c := sy_client y in
  let s := sy_server y in
  let a := sy_addr y in
  let tok := cl_token c in
  (token_wf tok /\ private_wf t /\ token_consistent tok t /\
   cl_id c = ct_client_id tok /\ ct_protocol tok = ns_protocol s /\
   private_decode (ct_private tok) (ns_protocol s) (ct_expire tok) (ct_xnonce tok) (ns_connect_key s) = Ok t /\
   (ns_secure s = true -> in_host_list s t = true) /\
   entry_free_or_bound s a (mac_of (token_dgram tok)) /\
   client_wf c /\ table_inv s /\ server_sizes s) /\
  is_connecting c = true /\ cl_replay c = replay_new /\ slot_open s a t /\
  match pend_find a (ns_pending s) with
  | None => len (ns_pending s) < NC_MAX_CLIENTS * NC_MAX_PENDING_FACTOR
  | Some pc => pending_ok s a tok t pc
  end.

(* the next address of the token, if the client has to move on *)
Definition next_server (c : nclient) : option addr :=
  match nth_opt (ct_addrs (cl_token c)) (N.to_nat (cl_addr_index c + 1)) with
  | Some (Some a) => Some a
  | _ => None
  end.

(* ------------------------------------------------------------------ *)
(* 7. what a tick leaves alone (the conclusions of the step theorems)  *)
(* ------------------------------------------------------------------ *)

(* what no call of the server API changes *)
Definition srv_same (s s' : nserver) : Prop :=
  ns_protocol s' = ns_protocol s /\ ns_connect_key s' = ns_connect_key s /\ ns_chal_key s' = ns_chal_key s /\
  ns_secure s' = ns_secure s /\ ns_addrs s' = ns_addrs s /\ ns_max s' = ns_max s /\
  len (ns_clients s') = len (ns_clients s).


(* what a tick leaves alone, and what it moves, in which direction *)
Definition sys_frame (y y' : nsys) (dt : N) : Prop :=
  let c := sy_client y in let c' := sy_client y' in
  let s := sy_server y in let s' := sy_server y' in
  sy_addr y' = sy_addr y /\
  cl_token c' = cl_token c /\ cl_id c' = cl_id c /\ cl_server_addr c' = cl_server_addr c /\
  cl_addr_index c' = cl_addr_index c /\ cl_connect_start c' = cl_connect_start c /\
  cl_now c' = cl_now c + dt /\ cl_seq c <= cl_seq c' <= cl_seq c + 1 /\ cl_last_recv c <= cl_last_recv c' /\
  ns_now s' = ns_now s + dt /\
  ns_chal_seq s <= ns_chal_seq s' <= ns_chal_seq s + 2 /\
  ns_global_seq s <= ns_global_seq s' <= ns_global_seq s + 2 /\
  srv_conn_seq y' <= srv_conn_seq y + 1 /\ srv_same s s' /\
  (is_connecting c' = true -> is_connecting c = true) /\
  (forall slot' sc', find_by_id s' (cl_id c) = Some (slot', sc') ->
     (exists slot sc, find_by_id s (cl_id c) = Some (slot, sc) /\ nc_timeout sc' = nc_timeout sc /\
                      nc_last_recv sc <= nc_last_recv sc') \/
     (find_by_id s (cl_id c) = None /\ ns_now s + dt <= nc_last_recv sc')).

(* the client's own tick *)
Definition tick_frame (c c1 : nclient) (dt : N) : Prop :=
  cl_token c1 = cl_token c /\ cl_id c1 = cl_id c /\ cl_server_addr c1 = cl_server_addr c /\
  cl_addr_index c1 = cl_addr_index c /\ cl_connect_start c1 = cl_connect_start c /\
  cl_now c1 = cl_now c + dt /\ cl_seq c <= cl_seq c1 <= cl_seq c + 1 /\ cl_last_recv c1 = cl_last_recv c /\
  cl_state c1 = cl_state c /\ cl_replay c1 = cl_replay c /\ cl_chal_seq c1 = cl_chal_seq c /\
  cl_chal_data c1 = cl_chal_data c /\ cl_client_index c1 = cl_client_index c.

