(* GlueSpec.v - specification-level definitions for the transport glue theorems (C20). Definitions only. *)
From RenetV Require Import Base Consts Varint Packet Channels Conn Server.
From RenetV Require Import Aead NPacket Token NServer NClient Transport.
Open Scope N_scope.

(* the message layer holds a connection object exactly for the clients the handshake layer lists *)
Definition lockstep (t : tserver) (rs : server) : Prop :=
  forall id, sm_mem id (s_conns rs) = true <-> In id (NServer.clients_id (ts_net t)).

(* events appended to the message layer's queue by a transport call *)
Definition new_events (rs rs' : server) (evs : list event) : Prop := s_events rs' = s_events rs ++ evs.

(* what the application may do to the message layer between two transport calls *)
Inductive app_op :=
| ASend (id ch : N) (m : list N) | ABroadcast (ch : N) (m : list N) | ABroadcastExcept (id ch : N) (m : list N)
| ARecv (id ch : N) | ADisconnect (id : N) | ADisconnectAll | AGetEvent | AUpdate (dt : N).

Definition app_step (rs : server) (o : app_op) : pres server :=
  match o with
  | ASend id ch m => srv_send_message rs id ch m
  | ABroadcast ch m => broadcast_message rs ch m
  | ABroadcastExcept id ch m => broadcast_message_except rs id ch m
  | ARecv id ch => do r <- srv_receive_message rs id ch; Ok (fst r)
  | ADisconnect id => Ok (srv_disconnect rs id)
  | ADisconnectAll => Ok (disconnect_all rs)
  | AGetEvent => Ok (fst (get_event rs))
  | AUpdate dt => srv_update rs dt
  end.

(* every payload handed to the client's message layer by the receive loop was surfaced by the netcode client *)
Fixpoint surfaced_payloads (net : nclient) (q : list dgram) : list (list N) :=
  match q with
  | [] => []
  | (a, b) :: t =>
      if negb (addr_eqb a (cl_server_addr net)) then surfaced_payloads net t else
      let (net', o) := nclient_process_packet net (recv_trunc b) in
      match o with Some p => p :: surfaced_payloads net' t | None => surfaced_payloads net' t end
  end.
