(* GlueSpec.v - specification-level definitions for the transport glue theorems (C20). Definitions only. *)
From RenetV Require Import Base Consts Varint Packet Channels Conn Server.
From RenetV Require Import Aead NPacket Token NServer NClient Transport.
Open Scope N_scope.

(* the message layer holds a connection object exactly for the clients the handshake layer lists *)
Definition lockstep (t : tserver) (rs : server) : Prop :=
  forall id, sm_mem id (s_conns rs) = true <-> In id (NServer.clients_id (ts_net t)).

(* events appended to the message layer's queue by a transport call *)
Definition new_events (rs rs' : server) (evs : list event) : Prop := s_events rs' = s_events rs ++ evs.

(* what the application may do to the message layer between two transport calls *)
Inductive app_op :=
| ASend (id ch : N) (m : list N) | ABroadcast (ch : N) (m : list N) | ABroadcastExcept (id ch : N) (m : list N)
| ARecv (id ch : N) | ADisconnect (id : N) | ADisconnectAll | AGetEvent | AUpdate (dt : N).

Definition app_step (rs : server) (o : app_op) : pres server :=
  match o with
  | ASend id ch m => srv_send_message rs id ch m
  | ABroadcast ch m => broadcast_message rs ch m
  | ABroadcastExcept id ch m => broadcast_message_except rs id ch m
  | ARecv id ch => do r <- srv_receive_message rs id ch; Ok (fst r)
  | ADisconnect id => Ok (srv_disconnect rs id)
  | ADisconnectAll => Ok (disconnect_all rs)
  | AGetEvent => Ok (fst (get_event rs))
  | AUpdate dt => srv_update rs dt
  end.

(* every payload handed to the client's message layer by the receive loop was surfaced by the netcode client *)
Fixpoint surfaced_payloads (net : nclient) (q : list dgram) : list (list N) :=
  match q with
  | [] => []
  | (a, b) :: t =>
      if negb (addr_eqb a (cl_server_addr net)) then surfaced_payloads net t else
      let (net', o) := nclient_process_packet net (recv_trunc b) in
      match o with Some p => p :: surfaced_payloads net' t | None => surfaced_payloads net' t end
  end.

(* ------------------------------------------------------------------ *)
(* additions for Proofs/GlueP.v                                        *)
(* ------------------------------------------------------------------ *)
From RenetV Require Import Spec.ConnSpec Spec.NetSpec.

(* lockstep on the two state components the loops thread through *)
Definition lockstep_n (net : nserver) (rs : server) : Prop :=
  forall id, sm_mem id (s_conns rs) = true <-> In id (NServer.clients_id net).

(* what one netcode result says about the set of connected ids (stronger than the conclusion of
   NServerP.events_matched, which is silent about the OTHER ids for connect / disconnect results) *)
Definition ids_step (net net' : nserver) (r : sresult) : Prop :=
  match r with
  | SRConnected id _ _ _ =>
      ~ In id (NServer.clients_id net) /\
      forall x, In x (NServer.clients_id net') <-> x = id \/ In x (NServer.clients_id net)
  | SRDisconnected id _ _ =>
      In id (NServer.clients_id net) /\
      forall x, In x (NServer.clients_id net') <-> x <> id /\ In x (NServer.clients_id net)
  | _ => NServer.clients_id net' = NServer.clients_id net
  end.

(* the events handle_server_result appends for one netcode result (under lockstep) *)
Definition result_events (rs : server) (r : sresult) : list event :=
  match r with
  | SRConnected id _ _ _ => [EvConnected id]
  | SRDisconnected id _ _ =>
      [EvDisconnected id (match srv_disconnect_reason rs id with Some x => x | None => RTransport end)]
  | _ => []
  end.

(* the datagrams handle_server_result appends for one netcode result *)
Definition result_dgrams (r : sresult) : list dgram :=
  match r with
  | SRPacketToSend a p | SRConnected _ a _ p | SRDisconnected _ a (Some p) => [(a, p)]
  | _ => []
  end.

(* handle_server_result folded over a list of netcode results *)
Fixpoint apply_results (rs : server) (outs : list dgram) (rl : list sresult) : tres (server * list dgram) :=
  match rl with
  | [] => Ok (rs, outs)
  | r :: t => do y <- handle_server_result r rs outs; let (rs', outs') := y in apply_results rs' outs' t
  end.

(* the message-layer calls (Spec/ConnSpec.v) handle_server_result makes for one netcode result *)
Definition result_sops (r : sresult) : list sop :=
  match r with
  | SRPayload id p => [SProcess id p]
  | SRConnected id _ _ _ => [SAdd id]
  | SRDisconnected id _ _ => [SRemove id]
  | _ => []
  end.

(* an event is explained by a netcode result *)
Definition ev_of_result (r : sresult) (e : event) : Prop :=
  match r, e with
  | SRConnected id _ _ _, EvConnected id' => id = id'
  | SRDisconnected id _ _, EvDisconnected id' _ => id = id'
  | _, _ => False
  end.

(* events appended by a transport call, per id: they alternate starting from the opposite of the
   presence before the call, and the presence after the call is what the last event says *)
Definition ev_rel (rs rs' : server) (evs : list event) : Prop :=
  new_events rs rs' evs /\
  forall id, alternates id (negb (sm_mem id (s_conns rs))) evs /\
             sm_mem id (s_conns rs') = last_is_connect id evs (sm_mem id (s_conns rs)).

(* the netcode calls of the three loops of NetcodeServerTransport::update *)
Definition recv_ops (q : list dgram) : list nsop := map (fun d => NSProcess (fst d) (recv_trunc (snd d))) q.

(* the netcode results of the receive loop: a function of the netcode state and the queue alone *)
Fixpoint server_results (net : nserver) (q : list dgram) : list sresult :=
  match q with
  | [] => []
  | (a, b) :: t =>
      match NServer.process_packet net a (recv_trunc b) with
      | Ok (net', r) => r :: server_results net' t
      | _ => []
      end
  end.

Definition payloads_of (rl : list sresult) : list (N * list N) :=
  flat_map (fun r => match r with SRPayload id p => [(id, p)] | _ => [] end) rl.

(* every (id, payload) handed to the server's message layer by the receive loop *)
Definition server_surfaced (net : nserver) (q : list dgram) : list (N * list N) := payloads_of (server_results net q).

Definition process_ops (ops : list sop) : list (N * list N) :=
  flat_map (fun o => match o with SProcess id p => [(id, p)] | _ => [] end) ops.

(* the client's message layer fed a list of payloads *)
Fixpoint process_all (rc : conn) (ps : list (list N)) : pres conn :=
  match ps with
  | [] => Ok rc
  | p :: t => do rc' <- Conn.process_packet rc p; process_all rc' t
  end.

(* the netcode client after the receive loop *)
Fixpoint client_after (net : nclient) (q : list dgram) : nclient :=
  match q with
  | [] => net
  | (a, b) :: t =>
      if negb (addr_eqb a (cl_server_addr net)) then client_after net t else
      client_after (fst (nclient_process_packet net (recv_trunc b))) t
  end.

(* NetcodeClientTransport::update mirrors the netcode status into the message layer before anything else *)
Definition mirror_status (net : nclient) (rc : conn) : conn :=
  if NClient.is_connected net then set_connected rc
  else if NClient.is_connecting net then set_connecting rc else rc.

(* application calls as calls of Spec/ConnSpec.v *)
Definition app_sop (o : app_op) : sop :=
  match o with
  | ASend id ch m => SSend id ch m
  | ABroadcast ch m => SBroadcast ch m
  | ABroadcastExcept id ch m => SBroadcastExcept id ch m
  | ARecv id ch => SRecv id ch
  | ADisconnect id => SDisconnect id
  | ADisconnectAll => SDisconnectAll
  | AGetEvent => SGetEvent
  | AUpdate dt => SUpdate dt
  end.

(* how many Connected / Disconnected events about id *)
Definition count_connects (id : N) (evs : list event) : nat :=
  length (filter (fun e => (ev_id e =? id) && ev_is_connect e) evs).
Definition count_disconnects (id : N) (evs : list event) : nat :=
  length (filter (fun e => (ev_id e =? id) && negb (ev_is_connect e)) evs).

(* ---------- the server side of a world: application calls and transport calls interleaved ---------- *)
Inductive wop :=
| WApp (o : app_op)            (* a call on the RenetServer *)
| WUpdate (dt : N)             (* NetcodeServerTransport::update *)
| WSend                        (* NetcodeServerTransport::send_packets *)
| WDisconnectAll               (* NetcodeServerTransport::disconnect_all *)
| WArrive (d : dgram)          (* a datagram reaches the socket *)
| WSetMax (m : N).             (* NetcodeServer::set_max_clients through the transport *)

Definition wstep (w : tserver * server) (o : wop) : tres (tserver * server * list dgram) :=
  let (t, rs) := w in
  match o with
  | WApp a => do rs' <- of_pres (app_step rs a); Ok (t, rs', [])
  | WUpdate dt => tserver_update t rs dt
  | WSend => tserver_send t rs
  | WDisconnectAll => tserver_disconnect_all t rs
  | WArrive d => Ok ({| ts_net := ts_net t; ts_in := ts_in t ++ [d] |}, rs, [])
  | WSetMax m => Ok ({| ts_net := set_max_clients (ts_net t) m; ts_in := ts_in t |}, rs, [])
  end.

Fixpoint wrun (w : tserver * server) (ops : list wop) : tres (tserver * server * list (list dgram)) :=
  match ops with
  | [] => Ok (fst w, snd w, [])
  | o :: rest =>
      do x <- wstep w o;
      let '(t1, rs1, out) := x in
      do y <- wrun (t1, rs1) rest;
      let '(t2, rs2, outs) := y in
      Ok (t2, rs2, out :: outs)
  end.

(* the events the application takes out of the queue along a run (WApp AGetEvent), in order *)
Fixpoint wtaken (w : tserver * server) (ops : list wop) : list event :=
  match ops with
  | [] => []
  | o :: rest =>
      match wstep w o with
      | Ok (t1, rs1, _) =>
          (match o with
           | WApp AGetEvent => match s_events (snd w) with e :: _ => [e] | [] => [] end
           | _ => []
           end) ++ wtaken (t1, rs1) rest
      | _ => []
      end
  end.

(* a connect / disconnect result of the netcode layer shows up as an event *)
Definition result_reported (r : sresult) (evs : list event) : Prop :=
  match r with
  | SRConnected id _ _ _ => In (EvConnected id) evs
  | SRDisconnected id _ _ => exists x, In (EvDisconnected id x) evs
  | _ => True
  end.
