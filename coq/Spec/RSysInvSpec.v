(* RSysInvSpec.v - specification-level definitions for the two-endpoint system (RSysSpec.v):
   the symmetry A <-> B, what an honest packet is with respect to the application log, the
   refinement of a reliable receive channel by the honest-event executions of RecvSpec.v,
   and the system invariant.  Definitions only; the theorems are in Proofs/RSysP.v. *)
From RenetV Require Import Base Consts Varint Packet Channels Conn.
From RenetV Require Import CodecSpec RecvSpec SendSpec ConnSpec ConnInvSpec RSysSpec.
Open Scope N_scope.

(* ---------- the symmetry ---------- *)
Definition flip_side (x : side) : side := match x with SA => SB | SB => SA end.

Definition flip_op (o : sysop) : sysop :=
  match o with
  | SysApi x op => SysApi (flip_side x) op
  | SysDeliver x i => SysDeliver (flip_side x) i
  end.

Definition flip (s : rsys) : rsys :=
  {| ra := rb s; rb := ra s; out_a := out_b s; out_b := out_a s; sent_a := sent_b s; sent_b := sent_a s;
     got_a := got_b s; got_b := got_a s; dlv_a := dlv_b s; dlv_b := dlv_a s |}.

(* ---------- the configuration ---------- *)
(* channel ids are u8 in the library; the model keeps them in N and the encoder writes [ch mod 256] *)
Definition cfg_u8 (cfg : list chan_config) : Prop := Forall (fun c => cc_id c < 256) cfg.

Definition is_rel_cfg (c : chan_config) : bool :=
  match cc_type c with TUnreliable => false | _ => true end.

(* orderedness of the reliable receive channel [ch], if there is one *)
Definition ordf_of (cfg : list chan_config) (ch : N) : option bool :=
  match find (fun c => (cc_id c =? ch) && is_rel_cfg c) cfg with
  | Some c => Some (match cc_type c with TReliableOrdered _ => true | _ => false end)
  | None => None
  end.

(* ---------- honest packets ---------- *)
Definition unacked_msg (u : unacked) : list N :=
  match u with USmall m _ => m | USliced m _ _ _ _ _ => m end.

Definition small_ok (l : list (list N)) (im : N * list N) : Prop :=
  msg_at l (fst im) = Some (snd im) /\ len (snd im) <= SLICE_SIZE.

Definition slice_ok (l : list (list N)) (sl : slice) : Prop :=
  exists m, msg_at l (sl_id sl) = Some m /\ SLICE_SIZE < len m /\
            sl = slice_of m (sl_id sl) (sl_index sl) /\ sl_index sl < num_slices_of m.

Definition uslice_ok (l : list (list N)) (sl : slice) : Prop :=
  exists m, In m l /\ SLICE_SIZE < len m /\
            sl = slice_of m (sl_id sl) (sl_index sl) /\ sl_index sl < num_slices_of m.

(* what a decoded packet of the sender's output says, relative to the log of submitted messages *)
Definition pkt_honest (sent : chan_log) (p : packet) : Prop :=
  match p with
  | SmallReliable _ ch ms => Forall (small_ok (log_get sent ch)) ms
  | ReliableSlice _ ch sl => slice_ok (log_get sent ch) sl
  | SmallUnreliable _ ch ms => Forall (fun m => In m (log_get sent ch)) ms
  | UnreliableSlice _ ch sl => uslice_ok (log_get sent ch) sl
  | Ack _ _ => True
  end.

(* every emitted packet that decodes at all decodes to a well-formed packet *)
Definition out_wf (out : list (list N)) : Prop :=
  forall bytes p, In bytes out -> from_bytes bytes = Ok p -> packet_wf p.

Definition out_ok (out : list (list N)) (sent : chan_log) : Prop :=
  forall bytes p, In bytes out -> from_bytes bytes = Ok p -> pkt_honest sent p.

(* ---------- sender consistency ---------- *)
Definition sender_ok (sr : list (N * send_rel)) (sent : chan_log) : Prop :=
  forall ch sa, sm_find ch sr = Some sa ->
    sr_next_id sa = len (log_get sent ch) /\
    forall id u, sm_find id (sr_unacked sa) = Some u ->
                 msg_at (log_get sent ch) id = Some (unacked_msg u).

(* ---------- receiver refinement ---------- *)
(* the state of a reliable receive channel is the one an honest-event execution reaches,
   and what the application obtained is exactly what that execution hands over *)
Definition rr_refines (sent got : list (list N)) (ordered : bool) (r : recv_rel) : Prop :=
  exists max evs outs,
    Forall (rev_ok sent) evs /\
    rr_exec sent (recv_rel_new max ordered) evs [] = (r, outs, false) /\
    map snd outs = got.

Definition receiver_ok (ordf : N -> option bool) (rr : list (N * recv_rel)) (sent got : chan_log) : Prop :=
  forall ch, match sm_find ch rr with
             | Some r => exists o, ordf ch = Some o /\ rr_refines (log_get sent ch) (log_get got ch) o r
             | None => ordf ch = None
             end.

(* ---------- acknowledgements ---------- *)
(* sequence number x belongs to a packet of [oa] that was handed to the peer while it was alive *)
Definition delivered (oa : list (list N)) (dlv : list nat) (x : N) : Prop :=
  exists i bytes p, In i dlv /\ nth_error oa i = Some bytes /\ from_bytes bytes = Ok p /\ packet_seq p = x.

Definition acks_ok (acks : list (N * N)) (ob oa : list (list N)) (dlv : list nat) : Prop :=
  (forall x, in_ranges x acks -> delivered oa dlv x) /\
  (forall bytes sq rs, In bytes ob -> from_bytes bytes = Ok (Ack sq rs) ->
     forall x, in_ranges x rs -> delivered oa dlv x).

(* the sender's records of sent packets agree with the packets themselves *)
Definition track_ok (oa : list (list N)) (seq : N) (recs : list (N * (N * sent_info))) : Prop :=
  forall bytes p, In bytes oa -> from_bytes bytes = Ok p ->
    packet_seq p < seq /\
    forall t info, sm_find (packet_seq p) recs = Some (t, info) -> info = pkt_info p.

(* part of message id of channel ch (None = the small message, Some idx = slice idx) reached the peer *)
Definition part_delivered (oa : list (list N)) (dlv : list nat) (ch id : N) (part : option N) : Prop :=
  exists i bytes, In i dlv /\ nth_error oa i = Some bytes /\
    match part with
    | None => carries_small bytes ch id
    | Some idx => carries_slice bytes ch id idx
    end.

Definition all_delivered (oa : list (list N)) (dlv : list nat) (ch id : N) (m : list N) : Prop :=
  if len m <=? SLICE_SIZE then part_delivered oa dlv ch id None
  else forall idx, idx < num_slices_of m -> part_delivered oa dlv ch id (Some idx).

Definition release_ok (sr : list (N * send_rel)) (sent : chan_log) (oa : list (list N)) (dlv : list nat) : Prop :=
  forall ch sa, sm_find ch sr = Some sa ->
    forall id m, msg_at (log_get sent ch) id = Some m ->
      (kind_of sa id = None -> all_delivered oa dlv ch id m) /\
      (forall idx, slice_acked sa id idx = Some true -> part_delivered oa dlv ch id (Some idx)).

(* ---------- the unreliable path ---------- *)
(* every slice packet of channel ch carrying sliced-message id [sid] is a slice of m *)
Definition sid_is (oa : list (list N)) (ch sid : N) (m : list N) : Prop :=
  forall bytes sq sl, In bytes oa -> from_bytes bytes = Ok (UnreliableSlice sq ch sl) -> sl_id sl = sid ->
    sl = slice_of m sid (sl_index sl).

Definition sid_used (oa : list (list N)) (ch sid : N) : Prop :=
  exists bytes sq sl, In bytes oa /\ from_bytes bytes = Ok (UnreliableSlice sq ch sl) /\ sl_id sl = sid.

Definition unrel_snd_ok (su : list (N * send_unrel)) (oa : list (list N)) (sent : chan_log) : Prop :=
  forall ch s, sm_find ch su = Some s ->
    Forall (fun m => In m (log_get sent ch)) (su_queue s) /\
    (* sliced-message ids already used on the wire are below the counter *)
    (forall bytes sq sl, In bytes oa -> from_bytes bytes = Ok (UnreliableSlice sq ch sl) -> sl_id sl < su_sliced_id s).

(* two slice packets of one channel with the same sliced-message id are slices of the same message *)
Definition unrel_out_ok (oa : list (list N)) (sent : chan_log) : Prop :=
  forall bytes sq ch sl, In bytes oa -> from_bytes bytes = Ok (UnreliableSlice sq ch sl) ->
    exists m, In m (log_get sent ch) /\ SLICE_SIZE < len m /\ sl_index sl < num_slices_of m /\
              sid_is oa ch (sl_id sl) m.

Definition ctor_ok' (m : list N) (c : sctor) : Prop :=
  sc_num c = num_slices_of m /\
  forall i ch, nth_error (sc_chunks c) i = Some (Some ch) -> ch = slice_payload m (N.of_nat i).

Definition unrel_rcv_ok (ru : list (N * recv_unrel)) (oa : list (list N)) (sent : chan_log) : Prop :=
  forall ch r, sm_find ch ru = Some r ->
    Forall (fun m => In m (log_get sent ch)) (ru_messages r) /\
    forall sid c, sm_find sid (ru_slices r) = Some c ->
      exists m, In m (log_get sent ch) /\ SLICE_SIZE < len m /\ ctor_ok' m c /\ sid_is oa ch sid m /\
                sid_used oa ch sid.

Definition got_ok (sent got : chan_log) : Prop :=
  forall ch m, In m (log_get got ch) -> In m (log_get sent ch).

(* ---------- the invariant of one direction (sender -> receiver) ---------- *)
(* sr su seq recs: the sender's reliable / unreliable send channels, next sequence number and
   sent-packet records; rr ru acks: the receiver's receive channels and pending acks;
   oa / ob: everything the sender / the receiver ever emitted; sent / got: the application logs;
   dlv: which packets of oa were handed to the receiver while it was alive *)
Record dinv (ordf : N -> option bool)
       (sr : list (N * send_rel)) (su : list (N * send_unrel)) (seq : N) (recs : list (N * (N * sent_info)))
       (rr : list (N * recv_rel)) (ru : list (N * recv_unrel)) (acks : list (N * N))
       (oa ob : list (list N)) (sent got : chan_log) (dlv : list nat) : Prop := {
  di_sender : sender_ok sr sent;
  di_out : out_ok oa sent;
  di_receiver : receiver_ok ordf rr sent got;
  di_acks : acks_ok acks ob oa dlv;
  di_track : track_ok oa seq recs;
  di_release : release_ok sr sent oa dlv;
  di_usnd : unrel_snd_ok su oa sent;
  di_uout : unrel_out_ok oa sent;
  di_urcv : unrel_rcv_ok ru oa sent;
  di_got : got_ok sent got
}.

Definition dir_inv (ordf : N -> option bool) (s : rsys) : Prop :=
  dinv ordf (c_sr (ra s)) (c_su (ra s)) (c_seq (ra s)) (c_sent (ra s))
       (c_rr (rb s)) (c_ru (rb s)) (c_acks (rb s))
       (out_a s) (out_b s) (sent_a s) (got_b s) (dlv_b s).

(* send-channel ids fit the u8 the wire format gives them *)
Definition chans_u8 (c : conn) : Prop :=
  forall ch, sm_mem ch (c_sr c) = true \/ sm_mem ch (c_su c) = true -> ch < 256.

Record base_inv (s : rsys) : Prop := {
  bi_a : conn_inv (ra s);
  bi_b : conn_inv (rb s);
  bi_u8a : chans_u8 (ra s);
  bi_u8b : chans_u8 (rb s);
  bi_wfa : out_wf (out_a s);
  bi_wfb : out_wf (out_b s)
}.

Definition sys_inv (cfg_ab cfg_ba : list chan_config) (s : rsys) : Prop :=
  base_inv s /\ dir_inv (ordf_of cfg_ab) s /\ dir_inv (ordf_of cfg_ba) (flip s).
