(* SendSpec.v - specification-level definitions for the send side: invariants of the
   send channels, what a packet carries, payload accounting. Definitions only. *)
From RenetV Require Import Base Consts Varint Packet Channels.
From RenetV Require Import RecvSpec.
Open Scope N_scope.

Definition opt_le (o : option N) (now : N) : Prop := match o with None => True | Some t => t <= now end.

Definition unacked_wf (now : N) (u : unacked) : Prop :=
  match u with
  | USmall m last => len m <= SLICE_SIZE /\ opt_le last now
  | USliced m num nacked next acked ls =>
      SLICE_SIZE < len m /\ num = num_slices_of m /\
      length acked = N.to_nat num /\ length ls = N.to_nat num /\
      nacked = len (filter (fun b => b) acked) /\ nacked < num /\
      Forall (fun o => opt_le o now) ls
  end.

Definition unacked_len (u : unacked) : N :=
  match u with USmall m _ => len m | USliced m _ _ _ _ _ => len m end.

Fixpoint keys_ascending (lo : N) (ks : list N) : Prop :=
  match ks with [] => True | k :: t => lo <= k /\ keys_ascending (k + 1) t end.

(* invariant of a reliable send channel; now = the connection's clock *)
Definition sr_inv (now : N) (s : send_rel) : Prop :=
  keys_ascending 0 (map fst (sr_unacked s)) /\
  Forall (fun iu => fst iu < sr_next_id s /\ unacked_wf now (snd iu)) (sr_unacked s) /\
  sr_mem s = sum (map (fun iu => unacked_len (snd iu)) (sr_unacked s)) /\
  sr_mem s <= sr_max s.

Definition su_inv (s : send_unrel) : Prop :=
  su_mem s = sum (map len (su_queue s)) /\ su_mem s <= su_max s.

(* kind of the message stored under an id: None = not pending, Some None = small, Some (Some n) = n slices *)
Definition kind_of (s : send_rel) (id : N) : option (option N) :=
  match sm_find id (sr_unacked s) with
  | None => None
  | Some (USmall _ _) => Some None
  | Some (USliced _ num _ _ _ _) => Some (Some num)
  end.

(* message payload bytes carried by a packet: this is what the per-tick budget counts *)
Definition payload_bytes (p : packet) : N :=
  match p with
  | SmallReliable _ _ ms => sum (map (fun im => len (snd im)) ms)
  | SmallUnreliable _ _ ms => sum (map len ms)
  | ReliableSlice _ _ s | UnreliableSlice _ _ s => len (sl_payload s)
  | Ack _ _ => 0
  end.
Definition payload_total (ps : list packet) : N := sum (map payload_bytes ps).

(* serialised size of the body of a small packet, as the packing loops count it *)
Definition rel_entry_size (im : N * list N) : N := len (snd im) + varint_len (len (snd im)) + varint_len (fst im).
Definition unrel_entry_size (m : list N) : N := len m + varint_len (len m).

(* a packet is consistent with the channel's view of what was submitted *)
Definition rel_packet_ok (ch : N) (s : send_rel) (p : packet) : Prop :=
  match p with
  | SmallReliable _ c ms =>
      c = ch /\ Forall (fun im => sm_find (fst im) (sr_unacked s) <> None /\
                                  exists last, sm_find (fst im) (sr_unacked s) = Some (USmall (snd im) last)) ms
  | ReliableSlice _ c sl =>
      c = ch /\ exists m num nacked next acked ls,
        sm_find (sl_id sl) (sr_unacked s) = Some (USliced m num nacked next acked ls) /\
        sl = slice_of m (sl_id sl) (sl_index sl) /\ sl_index sl < num
  | _ => False
  end.

(* sequence numbers seq, seq+1, ... in order *)
Fixpoint seqs_from (seq : N) (ps : list packet) : Prop :=
  match ps with [] => True | p :: t => packet_seq p = seq /\ seqs_from (seq + 1) t end.

(* when was each part last transmitted, for the retransmission theorems *)
Definition small_last (s : send_rel) (id : N) : option (option N) :=
  match sm_find id (sr_unacked s) with Some (USmall _ l) => Some l | _ => None end.
Definition slice_last (s : send_rel) (id idx : N) : option (option N) :=
  match sm_find id (sr_unacked s) with
  | Some (USliced _ _ _ _ _ ls) => nth_opt ls (N.to_nat idx)
  | _ => None
  end.
Definition slice_acked (s : send_rel) (id idx : N) : option bool :=
  match sm_find id (sr_unacked s) with
  | Some (USliced _ _ _ _ acked _) => nth_opt acked (N.to_nat idx)
  | _ => None
  end.

Definition is_due (now resend : N) (last : option N) : Prop :=
  match last with None => True | Some t => resend <= now - t end.

(* the parts (message id, optional slice index) a list of packets transmits *)
Fixpoint parts_of (ps : list packet) : list (N * option N) :=
  match ps with
  | [] => []
  | SmallReliable _ _ ms :: t => map (fun im => (fst im, None)) ms ++ parts_of t
  | ReliableSlice _ _ s :: t => (sl_id s, Some (sl_index s)) :: parts_of t
  | _ :: t => parts_of t
  end.
