(* ConnInvSpec.v - specification-level definitions for the connection (RenetClient) level:
   the connection invariant, what a sent-packet record may say about the send channels,
   the relational specification of the gathering loop of get_packets_to_send, and the
   "counters are small" side condition under which the encoder cannot hit unreachable!().
   Definitions only; the theorems are in Proofs/ConnP.v. *)
From RenetV Require Import Base Consts Varint Packet Channels Conn.
From RenetV Require Import CodecSpec RecvSpec SendSpec ConnSpec.
Open Scope N_scope.

(* ---------- sorted association lists ---------- *)
Definition sorted_keys {V} (m : list (N * V)) : Prop := asc (map fst m).

(* ---------- what a sent_packets record may claim about a reliable send channel ---------- *)
(* message ids are never reused: an id below sr_next_id keeps its KIND (small / n slices)
   until it is released *)
Definition id_small_ok (s : send_rel) (id : N) : Prop :=
  id < sr_next_id s /\ (kind_of s id = None \/ kind_of s id = Some None).

Definition id_slice_ok (s : send_rel) (id idx : N) : Prop :=
  id < sr_next_id s /\
  (kind_of s id = None \/ exists num, kind_of s id = Some (Some num) /\ idx < num).

Definition sent_info_ok (sr : list (N * send_rel)) (i : sent_info) : Prop :=
  match i with
  | SINone => True
  | SIReliableMessages ch ids => exists s, sm_find ch sr = Some s /\ Forall (id_small_ok s) ids
  | SIReliableSlice ch id idx => exists s, sm_find ch sr = Some s /\ id_slice_ok s id idx
  | SIAck _ => True
  end.

(* an entry of channel_send_order names an existing channel of the right kind *)
Definition order_ok (sr : list (N * send_rel)) (su : list (N * send_unrel)) (e : bool * N) : Prop :=
  if fst e then sm_mem (snd e) sr = true else sm_mem (snd e) su = true.

(* ---------- the connection invariant ---------- *)
Record conn_inv (c : conn) : Prop := {
  ci_sr_sorted : sorted_keys (c_sr c);
  ci_su_sorted : sorted_keys (c_su c);
  ci_rr_sorted : sorted_keys (c_rr c);
  ci_ru_sorted : sorted_keys (c_ru c);
  ci_sent_sorted : sorted_keys (c_sent c);
  ci_sr : Forall (fun e => sr_inv (c_now c) (snd e) /\ sr_ch (snd e) = fst e) (c_sr c);
  ci_su : Forall (fun e => su_inv (snd e) /\ su_ch (snd e) = fst e) (c_su c);
  ci_rr : Forall (fun e => rr_inv (snd e)) (c_rr c);
  ci_ru : Forall (fun e => ru_inv (c_now c) (snd e)) (c_ru c);
  ci_order : Forall (order_ok (c_sr c) (c_su c)) (c_order c);
  ci_acks_wf : ranges_wf 0 (c_acks c);
  ci_acks_len : len (c_acks c) <= MAX_ACK_RANGES;
  ci_acks_below : ranges_below (VARINT_MAX + 1) (c_acks c);
  (* every tracked packet was sent in the past, under a sequence number already consumed,
     and what it claims to have carried is consistent with the send channels *)
  ci_sent : Forall (fun e => fst e < c_seq c /\ fst (snd e) <= c_now c /\
                             sent_info_ok (c_sr c) (snd (snd e))) (c_sent c)
}.

(* ---------- the sent-packet record of a packet ---------- *)
(* info_of without its panic paths (they are excluded by the invariant on pending_acks) *)
Definition pkt_info (p : packet) : sent_info :=
  match p with
  | SmallReliable _ ch ms => SIReliableMessages ch (map fst ms)
  | ReliableSlice _ ch s => SIReliableSlice ch (sl_id s) (sl_index s)
  | SmallUnreliable _ _ _ | UnreliableSlice _ _ _ => SINone
  | Ack _ ranges => SIAck (snd (last ranges (0, 0)) - 1)
  end.

(* "the record says that message id of channel ch travelled in that packet" *)
Definition info_lists (i : sent_info) (ch id : N) : Prop :=
  match i with
  | SIReliableMessages c ids => c = ch /\ In id ids
  | SIReliableSlice c i' _ => c = ch /\ i' = id
  | _ => False
  end.

(* ---------- get_packets_to_send: the gathering loop, relationally ---------- *)
(* the packets are the concatenation, in channel_send_order order, of each channel's own
   output, each computed with the sequence number and the budget the earlier channels left *)
Inductive gather_rel : list (bool * N) -> conn -> N -> conn -> N -> list packet -> Prop :=
| GNil : forall c avail, gather_rel [] c avail c avail []
| GRel : forall ch t c avail s s' pk seq' avail1 c2 avail2 pk2,
    sm_find ch (c_sr c) = Some s ->
    sr_get_packets s (c_seq c) avail (c_now c) = Ok (s', pk, seq', avail1) ->
    gather_rel t (with_seq (with_sr c (sm_insert ch s' (c_sr c))) seq') avail1 c2 avail2 pk2 ->
    gather_rel ((true, ch) :: t) c avail c2 avail2 (pk ++ pk2)
| GUnrel : forall ch t c avail s s' pk seq' avail1 c2 avail2 pk2,
    sm_find ch (c_su c) = Some s ->
    su_get_packets s (c_seq c) avail = Ok (s', pk, seq', avail1) ->
    gather_rel t (with_seq (with_su c (sm_insert ch s' (c_su c))) seq') avail1 c2 avail2 pk2 ->
    gather_rel ((false, ch) :: t) c avail c2 avail2 (pk ++ pk2).

(* the optional trailing Ack packet *)
Definition ack_part (seq : N) (acks : list (N * N)) : list packet :=
  match acks with [] => [] | _ => [Ack seq acks] end.

(* ---------- an upper bound on the number of packets one flush can emit ---------- *)
Definition unacked_parts (u : unacked) : N :=
  match u with USmall _ _ => 1 | USliced _ num _ _ _ _ => num end.
(* every packet of a reliable channel carries at least one pending part, except possibly
   one empty SmallReliable packet (the empty-packet quirk) *)
Definition sr_pkt_bound (s : send_rel) : N :=
  sum (map (fun iu => unacked_parts (snd iu)) (sr_unacked s)) + 1.
(* an unreliable channel emits at most one packet per queued small message (plus one empty
   one) and num_slices_of m packets per large message *)
Definition su_msg_bound (m : list N) : N := if SLICE_SIZE <? len m then num_slices_of m else 1.
Definition su_pkt_bound (s : send_unrel) : N := sum (map su_msg_bound (su_queue s)) + 1.

Definition chan_pkt_bound (c : conn) (e : bool * N) : N :=
  if fst e
  then match sm_find (snd e) (c_sr c) with Some s => sr_pkt_bound s | None => 0 end
  else match sm_find (snd e) (c_su c) with Some s => su_pkt_bound s | None => 0 end.

Definition flush_pkt_bound (c : conn) : N := sum (map (chan_pkt_bound c) (c_order c)) + 1.

(* number of large messages queued on an unreliable channel: each consumes one sliced id *)
Definition su_large_count (s : send_unrel) : N :=
  len (filter (fun m => SLICE_SIZE <? len m) (su_queue s)).

(* sufficient for the encoder never to reach unreachable!(): the sequence numbers one flush can
   consume, every message id handed out so far and every sliced-message id of the unreliable
   channels (also those the queued large messages are about to receive) are at most 2^62 - 1;
   the configured memory limits are below 2^62 bytes, so that message lengths and slice counts are *)
Definition sr_small (s : send_rel) : Prop :=
  sr_next_id s <= VARINT_MAX + 1 /\ sr_max s <= VARINT_MAX.
Definition su_small (s : send_unrel) : Prop :=
  su_sliced_id s + su_large_count s <= VARINT_MAX + 1 /\ su_max s <= VARINT_MAX.

Definition counters_small (c : conn) : Prop :=
  c_seq c + flush_pkt_bound c <= VARINT_MAX + 1 /\
  Forall (fun e => sr_small (snd e)) (c_sr c) /\
  Forall (fun e => su_small (snd e)) (c_su c).
