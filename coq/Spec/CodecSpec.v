(* CodecSpec.v - specification-level predicates for the wire format and the ack ranges.
   Definitions only; the theorems about them are in Proofs/ and pinned in Props/. *)
From RenetV Require Import Base Consts Varint Packet Channels Conn.
Open Scope N_scope.

Definition bytes_ok (l : list N) : Prop := Forall (fun b => b < 256) l.

(* sorted, pairwise non-adjacent, non-empty ranges [a, b) starting at or above lo *)
Fixpoint ranges_wf (lo : N) (l : list (N * N)) : Prop :=
  match l with
  | [] => True
  | (a, b) :: t => lo <= a /\ a < b /\ ranges_wf (b + 1) t
  end.

Fixpoint in_ranges (x : N) (l : list (N * N)) : Prop :=
  match l with
  | [] => False
  | (a, b) :: t => (a <= x /\ x < b) \/ in_ranges x t
  end.

Definition ranges_below (bound : N) (l : list (N * N)) : Prop :=
  Forall (fun ab => snd ab <= bound) l.

Definition slice_wf (reliable : bool) (s : slice) : Prop :=
  sl_id s <= VARINT_MAX /\ sl_index s <= VARINT_MAX /\
  1 <= sl_num s /\ sl_num s <= MAX_NUM_SLICES /\
  len (sl_payload s) <= VARINT_MAX /\
  (reliable = true -> 1 <= len (sl_payload s) /\ len (sl_payload s) <= SLICE_SIZE).

(* the values the library can build and the decoder can return *)
Definition packet_wf (p : packet) : Prop :=
  match p with
  | SmallReliable seq ch ms =>
      seq <= VARINT_MAX /\ ch < 256 /\ len ms < 65536 /\
      Forall (fun im => fst im <= VARINT_MAX /\ len (snd im) <= VARINT_MAX) ms
  | SmallUnreliable seq ch ms =>
      seq <= VARINT_MAX /\ ch < 256 /\ len ms < 65536 /\
      Forall (fun m => len m <= VARINT_MAX) ms
  | ReliableSlice seq ch s => seq <= VARINT_MAX /\ ch < 256 /\ slice_wf true s
  | UnreliableSlice seq ch s => seq <= VARINT_MAX /\ ch < 256 /\ slice_wf false s
  | Ack seq rs =>
      seq <= VARINT_MAX /\ rs <> [] /\ ranges_wf 0 rs /\ ranges_below (VARINT_MAX + 1) rs
  end.

(* feeding sequence numbers one by one *)
Definition feed (l : list (N * N)) (ss : list N) : list (N * N) := fold_left add_pending_ack ss l.
