(* RSysSpec.v - the two-endpoint system: two connections, an adversarial network that may deliver
   any packet the peer ever emitted, any number of times, in any order (or never), and arbitrary
   interleavings of API calls on both sides. Definitions only. *)
From RenetV Require Import Base Consts Varint Packet Channels Conn ConnSpec RecvSpec SendSpec.
Open Scope N_scope.

Inductive side := SA | SB.

Definition chan_log := list (N * list (list N)).   (* channel id -> messages, oldest first *)

Fixpoint log_get (l : chan_log) (ch : N) : list (list N) :=
  match l with [] => [] | (c, ms) :: t => if c =? ch then ms else log_get t ch end.
Fixpoint log_add (l : chan_log) (ch : N) (m : list N) : chan_log :=
  match l with
  | [] => [(ch, [m])]
  | (c, ms) :: t => if c =? ch then (c, ms ++ [m]) :: t else (c, ms) :: log_add t ch m
  end.

Record rsys := {
  ra : conn; rb : conn;
  out_a : list (list N); out_b : list (list N);     (* every packet each side ever emitted *)
  sent_a : chan_log; sent_b : chan_log;             (* messages each application submitted and the channel accepted *)
  got_a : chan_log; got_b : chan_log;               (* messages each application obtained *)
  dlv_a : list nat; dlv_b : list nat;               (* dlv_b: indices of out_a handed to B's process_packet while B was not disconnected *)
}.

Inductive sysop :=
| SysApi (s : side) (o : cop)          (* any public call except process_packet *)
| SysDeliver (to : side) (i : nat).    (* the network hands the peer's i-th packet to `to` *)

Definition is_process (o : cop) : bool := match o with CProcess _ => true | _ => false end.

Definition conn_of (s : rsys) (x : side) : conn := match x with SA => ra s | SB => rb s end.

Definition upd_side (s : rsys) (x : side) (c : conn) (outs : list (list N)) (snt got : chan_log -> chan_log) : rsys :=
  match x with
  | SA => {| ra := c; rb := rb s; out_a := out_a s ++ outs; out_b := out_b s; sent_a := snt (sent_a s); sent_b := sent_b s;
             got_a := got (got_a s); got_b := got_b s; dlv_a := dlv_a s; dlv_b := dlv_b s |}
  | SB => {| ra := ra s; rb := c; out_a := out_a s; out_b := out_b s ++ outs; sent_a := sent_a s; sent_b := snt (sent_b s);
             got_a := got_a s; got_b := got (got_b s); dlv_a := dlv_a s; dlv_b := dlv_b s |}
  end.

Definition sys_step (s : rsys) (o : sysop) : pres rsys :=
  match o with
  | SysApi x op =>
      if is_process op then Ok s else
      let c := conn_of s x in
      do r <- cstep c op;
      let (c', out) := r in
      let accepted := negb (is_disconnected c) && negb (is_disconnected c') in
      Ok (upd_side s x c'
            (match out with OPkts p => p | _ => [] end)
            (fun l => match op with CSend ch m => if accepted then log_add l ch m else l | _ => l end)
            (fun l => match op, out with CRecv ch, OMsg (Some m) => log_add l ch m | _, _ => l end))
  | SysDeliver SB i =>
      match nth_error (out_a s) i with
      | None => Ok s
      | Some bytes =>
          do c' <- process_packet (rb s) bytes;
          Ok {| ra := ra s; rb := c'; out_a := out_a s; out_b := out_b s; sent_a := sent_a s; sent_b := sent_b s;
                got_a := got_a s; got_b := got_b s; dlv_a := dlv_a s;
                dlv_b := if is_disconnected (rb s) then dlv_b s else dlv_b s ++ [i] |}
      end
  | SysDeliver SA i =>
      match nth_error (out_b s) i with
      | None => Ok s
      | Some bytes =>
          do c' <- process_packet (ra s) bytes;
          Ok {| ra := c'; rb := rb s; out_a := out_a s; out_b := out_b s; sent_a := sent_a s; sent_b := sent_b s;
                got_a := got_a s; got_b := got_b s;
                dlv_a := if is_disconnected (ra s) then dlv_a s else dlv_a s ++ [i]; dlv_b := dlv_b s |}
      end
  end.

Fixpoint sys_run (s : rsys) (ops : list sysop) : pres rsys :=
  match ops with
  | [] => Ok s
  | o :: t => do s' <- sys_step s o; sys_run s' t
  end.

(* A sends on cfg_ab and receives on cfg_ba; B the other way round *)
Definition sys_init (budget_a budget_b : N) (cfg_ab cfg_ba : list chan_config) : pres rsys :=
  do a <- conn_new budget_a cfg_ab cfg_ba;
  do b <- conn_new budget_b cfg_ba cfg_ab;
  Ok {| ra := a; rb := b; out_a := []; out_b := []; sent_a := []; sent_b := []; got_a := []; got_b := [];
        dlv_a := []; dlv_b := [] |}.

Definition chan_kind (cfg : list chan_config) (ch : N) : option send_type :=
  match find (fun c => cc_id c =? ch) cfg with Some c => Some (cc_type c) | None => None end.

(* the calls name existing channels (an unknown channel id is documented API misuse) *)
Definition sysop_ok (cfg_ab cfg_ba : list chan_config) (o : sysop) : Prop :=
  match o with
  | SysApi SA (CSend ch _) | SysApi SB (CRecv ch) => chan_kind cfg_ab ch <> None
  | SysApi SB (CSend ch _) | SysApi SA (CRecv ch) => chan_kind cfg_ba ch <> None
  | _ => True
  end.

(* the parts of message id on channel ch carried by the serialised packet bytes *)
Definition carries_small (bytes : list N) (ch id : N) : Prop :=
  exists seq ms, from_bytes bytes = Ok (SmallReliable seq ch ms) /\ In id (map fst ms).
Definition carries_slice (bytes : list N) (ch id idx : N) : Prop :=
  exists seq sl, from_bytes bytes = Ok (ReliableSlice seq ch sl) /\ sl_id sl = id /\ sl_index sl = idx.
