(* Crypto/Chacha20.v - ChaCha20 block function, stream encryption (RFC 8439 2.3, 2.4)
   and HChaCha20 (draft-irtf-cfrg-xchacha 2.2), over N.
   Bytes are N values < 256, byte strings are lists of N; words are N values < 2^32.
   Every function is total on arbitrary lists: short keys / nonces are zero-padded,
   long ones truncated, out-of-range "bytes" are reduced when words are formed.
   Models contain no proofs; see Proofs/AeadP.v. *)
From RenetV Require Import Base.

(* ---- 32-bit words ---- *)
Definition M32 : N := 4294967295.          (* 2^32 - 1 *)
Definition add32 (a b : N) : N := N.land (a + b) M32.
Definition rotl32 (x k : N) : N :=
  N.land (N.lor (N.shiftl x k) (N.shiftr x (32 - k))) M32.

(* little-endian word from four bytes, reduced to 32 bits *)
Definition word4 (b0 b1 b2 b3 : N) : N :=
  N.land (b0 + 256 * (b1 + 256 * (b2 + 256 * b3))) M32.

(* n little-endian words from a byte string, zero-padded *)
Fixpoint words (n : nat) (l : list N) : list N :=
  match n with
  | O => []
  | S k =>
    match l with
    | b0 :: b1 :: b2 :: b3 :: r => word4 b0 b1 b2 b3 :: words k r
    | [b0; b1; b2] => word4 b0 b1 b2 0 :: words k []
    | [b0; b1] => word4 b0 b1 0 0 :: words k []
    | [b0] => word4 b0 0 0 0 :: words k []
    | [] => 0 :: words k []
    end
  end.

(* four little-endian bytes of a word, prepended to acc *)
Definition word_bytes (w : N) (acc : list N) : list N :=
  N.land w 255 :: N.land (N.shiftr w 8) 255 :: N.land (N.shiftr w 16) 255
  :: N.land (N.shiftr w 24) 255 :: acc.

(* ---- state ---- *)
Record state : Type := St {
  s0 : N; s1 : N; s2 : N; s3 : N;
  s4 : N; s5 : N; s6 : N; s7 : N;
  s8 : N; s9 : N; s10 : N; s11 : N;
  s12 : N; s13 : N; s14 : N; s15 : N }.

Definition quarter (a b c d : N) : N * N * N * N :=
  let a := add32 a b in let d := rotl32 (N.lxor d a) 16 in
  let c := add32 c d in let b := rotl32 (N.lxor b c) 12 in
  let a := add32 a b in let d := rotl32 (N.lxor d a) 8 in
  let c := add32 c d in let b := rotl32 (N.lxor b c) 7 in
  (a, b, c, d).

Definition double_round (s : state) : state :=
  let '(St x0 x1 x2 x3 x4 x5 x6 x7 x8 x9 x10 x11 x12 x13 x14 x15) := s in
  (* columns *)
  let '(x0, x4, x8, x12) := quarter x0 x4 x8 x12 in
  let '(x1, x5, x9, x13) := quarter x1 x5 x9 x13 in
  let '(x2, x6, x10, x14) := quarter x2 x6 x10 x14 in
  let '(x3, x7, x11, x15) := quarter x3 x7 x11 x15 in
  (* diagonals *)
  let '(x0, x5, x10, x15) := quarter x0 x5 x10 x15 in
  let '(x1, x6, x11, x12) := quarter x1 x6 x11 x12 in
  let '(x2, x7, x8, x13) := quarter x2 x7 x8 x13 in
  let '(x3, x4, x9, x14) := quarter x3 x4 x9 x14 in
  St x0 x1 x2 x3 x4 x5 x6 x7 x8 x9 x10 x11 x12 x13 x14 x15.

Fixpoint iter_rounds (n : nat) (s : state) : state :=
  match n with O => s | S k => iter_rounds k (double_round s) end.

Definition rounds20 (s : state) : state := iter_rounds 10 s.

Definition add_state (a b : state) : state :=
  St (add32 (s0 a) (s0 b)) (add32 (s1 a) (s1 b)) (add32 (s2 a) (s2 b)) (add32 (s3 a) (s3 b))
     (add32 (s4 a) (s4 b)) (add32 (s5 a) (s5 b)) (add32 (s6 a) (s6 b)) (add32 (s7 a) (s7 b))
     (add32 (s8 a) (s8 b)) (add32 (s9 a) (s9 b)) (add32 (s10 a) (s10 b)) (add32 (s11 a) (s11 b))
     (add32 (s12 a) (s12 b)) (add32 (s13 a) (s13 b)) (add32 (s14 a) (s14 b)) (add32 (s15 a) (s15 b)).

Definition state_bytes (s : state) : list N :=
  word_bytes (s0 s) (word_bytes (s1 s) (word_bytes (s2 s) (word_bytes (s3 s)
  (word_bytes (s4 s) (word_bytes (s5 s) (word_bytes (s6 s) (word_bytes (s7 s)
  (word_bytes (s8 s) (word_bytes (s9 s) (word_bytes (s10 s) (word_bytes (s11 s)
  (word_bytes (s12 s) (word_bytes (s13 s) (word_bytes (s14 s) (word_bytes (s15 s)
  []))))))))))))))).

(* "expand 32-byte k" *)
Definition C0 : N := 1634760805.  (* 0x61707865 *)
Definition C1 : N := 857760878.   (* 0x3320646e *)
Definition C2 : N := 2036477234.  (* 0x79622d32 *)
Definition C3 : N := 1797285236.  (* 0x6b206574 *)

(* state from 8 key words and 4 trailing words (counter + 3 nonce words, or the
   4 words of an HChaCha20 nonce) *)
Definition mk_state (kw tw : list N) : state :=
  match kw, tw with
  | [k0; k1; k2; k3; k4; k5; k6; k7], [t0; t1; t2; t3] =>
      St C0 C1 C2 C3 k0 k1 k2 k3 k4 k5 k6 k7 t0 t1 t2 t3
  | _, _ => St C0 C1 C2 C3 0 0 0 0 0 0 0 0 0 0 0 0      (* unreachable: words n has n elements *)
  end.

(* initial state with counter 0; key 32 bytes, nonce 12 bytes *)
Definition init_state (key nonce : list N) : state :=
  mk_state (words 8 key) (0 :: words 3 nonce).

Definition set_counter (s : state) (ctr : N) : state :=
  let '(St x0 x1 x2 x3 x4 x5 x6 x7 x8 x9 x10 x11 _ x13 x14 x15) := s in
  St x0 x1 x2 x3 x4 x5 x6 x7 x8 x9 x10 x11 (N.land ctr M32) x13 x14 x15.

(* 64-byte block for a prepared state and a counter (taken mod 2^32) *)
Definition block_of (s : state) (ctr : N) : list N :=
  let s' := set_counter s ctr in
  state_bytes (add_state (rounds20 s') s').

(* RFC 8439 2.3 *)
Definition chacha20_block (key : list N) (ctr : N) (nonce : list N) : list N :=
  block_of (init_state key nonce) ctr.

(* ---- stream encryption ----
   xor the data with blk ctr ++ blk (ctr+1) ++ ...; ks is the unused rest of
   the current block.  Structural on the data; no index arithmetic.  If blk
   returns the empty list (it never does for block_of) the byte is copied. *)
Fixpoint stream_xor (blk : N -> list N) (ctr : N) (ks : list N) (d : list N) : list N :=
  match d with
  | [] => []
  | x :: d' =>
    match ks with
    | k :: ks' => N.lxor x k :: stream_xor blk ctr ks' d'
    | [] =>
      match blk ctr with
      | k :: ks' => N.lxor x k :: stream_xor blk (ctr + 1) ks' d'
      | [] => x :: stream_xor blk (ctr + 1) [] d'
      end
    end
  end.

(* RFC 8439 2.4 *)
Definition chacha20_xor (key : list N) (ctr : N) (nonce : list N) (data : list N) : list N :=
  stream_xor (block_of (init_state key nonce)) ctr [] data.

(* ---- HChaCha20: 32-byte subkey from key and 16-byte nonce ---- *)
Definition hchacha20 (key nonce16 : list N) : list N :=
  let s := rounds20 (mk_state (words 8 key) (words 4 nonce16)) in
  word_bytes (s0 s) (word_bytes (s1 s) (word_bytes (s2 s) (word_bytes (s3 s)
  (word_bytes (s12 s) (word_bytes (s13 s) (word_bytes (s14 s) (word_bytes (s15 s)
  []))))))).

(* ---- test vectors ---- *)
Definition range (a : N) (n : nat) : list N := map (fun i => a + N.of_nat i) (seq 0 n).

(* RFC 8439 2.3.2 *)
Example rfc8439_2_3_2 :
  chacha20_block (range 0 32) 1 [0;0;0;9; 0;0;0;74; 0;0;0;0] =
  [0x10;0xf1;0xe7;0xe4;0xd1;0x3b;0x59;0x15;0x50;0x0f;0xdd;0x1f;0xa3;0x20;0x71;0xc4;
   0xc7;0xd1;0xf4;0xc7;0x33;0xc0;0x68;0x03;0x04;0x22;0xaa;0x9a;0xc3;0xd4;0x6c;0x4e;
   0xd2;0x82;0x64;0x46;0x07;0x9f;0xaa;0x09;0x14;0xc2;0xd7;0x05;0xd9;0x8b;0x02;0xa2;
   0xb5;0x12;0x9c;0xd1;0xde;0x16;0x4e;0xb9;0xcb;0xd0;0x83;0xe8;0xa2;0x50;0x3c;0x4e].
Proof. vm_compute. reflexivity. Qed.

(* "Ladies and Gentlemen of the class of '99: If I could offer you only one tip
   for the future, sunscreen would be it." *)
Definition sunscreen : list N :=
  [0x4c;0x61;0x64;0x69;0x65;0x73;0x20;0x61;0x6e;0x64;0x20;0x47;0x65;0x6e;0x74;0x6c;
   0x65;0x6d;0x65;0x6e;0x20;0x6f;0x66;0x20;0x74;0x68;0x65;0x20;0x63;0x6c;0x61;0x73;
   0x73;0x20;0x6f;0x66;0x20;0x27;0x39;0x39;0x3a;0x20;0x49;0x66;0x20;0x49;0x20;0x63;
   0x6f;0x75;0x6c;0x64;0x20;0x6f;0x66;0x66;0x65;0x72;0x20;0x79;0x6f;0x75;0x20;0x6f;
   0x6e;0x6c;0x79;0x20;0x6f;0x6e;0x65;0x20;0x74;0x69;0x70;0x20;0x66;0x6f;0x72;0x20;
   0x74;0x68;0x65;0x20;0x66;0x75;0x74;0x75;0x72;0x65;0x2c;0x20;0x73;0x75;0x6e;0x73;
   0x63;0x72;0x65;0x65;0x6e;0x20;0x77;0x6f;0x75;0x6c;0x64;0x20;0x62;0x65;0x20;0x69;
   0x74;0x2e].

(* RFC 8439 2.4.2 *)
Example rfc8439_2_4_2 :
  chacha20_xor (range 0 32) 1 [0;0;0;0; 0;0;0;74; 0;0;0;0] sunscreen =
  [0x6e;0x2e;0x35;0x9a;0x25;0x68;0xf9;0x80;0x41;0xba;0x07;0x28;0xdd;0x0d;0x69;0x81;
   0xe9;0x7e;0x7a;0xec;0x1d;0x43;0x60;0xc2;0x0a;0x27;0xaf;0xcc;0xfd;0x9f;0xae;0x0b;
   0xf9;0x1b;0x65;0xc5;0x52;0x47;0x33;0xab;0x8f;0x59;0x3d;0xab;0xcd;0x62;0xb3;0x57;
   0x16;0x39;0xd6;0x24;0xe6;0x51;0x52;0xab;0x8f;0x53;0x0c;0x35;0x9f;0x08;0x61;0xd8;
   0x07;0xca;0x0d;0xbf;0x50;0x0d;0x6a;0x61;0x56;0xa3;0x8e;0x08;0x8a;0x22;0xb6;0x5e;
   0x52;0xbc;0x51;0x4d;0x16;0xcc;0xf8;0x06;0x81;0x8c;0xe9;0x1a;0xb7;0x79;0x37;0x36;
   0x5a;0xf9;0x0b;0xbf;0x74;0xa3;0x5b;0xe6;0xb4;0x0b;0x8e;0xed;0xf2;0x78;0x5e;0x42;
   0x87;0x4d].
Proof. vm_compute. reflexivity. Qed.

(* RFC 8439 2.6.2: Poly1305 key generation = first 32 bytes of block 0 *)
Example rfc8439_2_6_2 :
  firstn 32 (chacha20_block (range 0x80 32) 0 [0;0;0;0; 0;1;2;3;4;5;6;7]) =
  [0x8a;0xd5;0xa0;0x8b;0x90;0x5f;0x81;0xcc;0x81;0x50;0x40;0x27;0x4a;0xb2;0x94;0x71;
   0xa8;0x33;0xb6;0x37;0xe3;0xfd;0x0d;0xa5;0x08;0xdb;0xb8;0xe2;0xfd;0xd1;0xa6;0x46].
Proof. vm_compute. reflexivity. Qed.

(* draft-irtf-cfrg-xchacha-03 2.2.1 *)
Example xchacha_2_2_1 :
  hchacha20 (range 0 32) [0;0;0;9; 0;0;0;0x4a; 0;0;0;0; 0x31;0x41;0x59;0x27] =
  [0x82;0x41;0x3b;0x42;0x27;0xb2;0x7b;0xfe;0xd3;0x0e;0x42;0x50;0x8a;0x87;0x7d;0x73;
   0xa0;0xf9;0xe4;0xd5;0x8a;0x74;0xa8;0x53;0xc1;0x2e;0xc4;0x13;0x26;0xd3;0xec;0xdc].
Proof. vm_compute. reflexivity. Qed.
