(* Crypto/Poly1305.v - Poly1305 one-time authenticator (RFC 8439 2.5) over N.
   The accumulator is (acc + n) * r mod p with p = 2^130 - 5.  Two versions:
   poly1305_spec reduces with N.modulo; poly1305 (the one that is run) reduces
   with 2^130 = 5 (mod p) using shifts and masks, and once with N.modulo at the end.
   Proofs/AeadP.v proves them equal.  Total on arbitrary lists: the key is
   zero-padded / truncated to 32 bytes; the tag always has 16 bytes. *)
From RenetV Require Import Base.

Definition P1305 : N := 1361129467683753853853498429727072845819.   (* 2^130 - 5 *)
Definition M130 : N := 1361129467683753853853498429727072845823.    (* 2^130 - 1 *)
Definition M128 : N := 340282366920938463463374607431768211455.     (* 2^128 - 1 *)
Definition CLAMP : N := 21267647620597763993911028882763415551.     (* 0x0ffffffc0ffffffc0ffffffc0fffffff *)

(* little-endian bytes via masks and shifts; always n bytes *)
Fixpoint le_bytes_sh (n : nat) (v : N) : list N :=
  match n with O => [] | S k => N.land v 255 :: le_bytes_sh k (N.shiftr v 8) end.

(* x = hi * 2^130 + lo  ==>  x = lo + 5 * hi  (mod p) *)
Definition red130 (x : N) : N := N.land x M130 + 5 * N.shiftr x 130.

(* One pass over the message.  cur / sh: little-endian value and bit position of
   the partial 16-byte chunk; a full chunk gets 2^128 added, a final partial
   chunk of k bytes gets 2^(8k).  step is the reduction of (acc + n) * r. *)
Fixpoint poly_go (step : N -> N) (acc cur sh : N) (d : list N) : N :=
  match d with
  | [] => if sh =? 0 then acc else step (acc + (cur + N.shiftl 1 sh))
  | b :: d' =>
    let cur' := cur + N.shiftl b sh in
    if sh =? 120
    then poly_go step (step (acc + (cur' + N.shiftl 1 128))) 0 0 d'
    else poly_go step acc cur' (sh + 8) d'
  end.

Definition key_r (key : list N) : N := N.land (le_val (firstn 16 key)) CLAMP.
Definition key_s (key : list N) : N := N.land (le_val (firstn 16 (skipn 16 key))) M128.

(* reference: N.modulo *)
Definition poly1305_spec (key msg : list N) : list N :=
  let r := key_r key in
  let acc := poly_go (fun x => (x * r) mod P1305) 0 0 0 msg in
  le_bytes 16 ((acc + key_s key) mod 2 ^ 128).

(* executable: lazy reduction *)
Definition poly1305 (key msg : list N) : list N :=
  let r := key_r key in
  let acc := poly_go (fun x => red130 (red130 (x * r))) 0 0 0 msg in
  le_bytes_sh 16 (acc mod P1305 + key_s key).

(* ---- test vector: RFC 8439 2.5.2 ---- *)
Definition key_2_5_2 : list N :=
  [0x85;0xd6;0xbe;0x78;0x57;0x55;0x6d;0x33;0x7f;0x44;0x52;0xfe;0x42;0xd5;0x06;0xa8;
   0x01;0x03;0x80;0x8a;0xfb;0x0d;0xb2;0xfd;0x4a;0xbf;0xf6;0xaf;0x41;0x49;0xf5;0x1b].
(* "Cryptographic Forum Research Group" *)
Definition msg_2_5_2 : list N :=
  [0x43;0x72;0x79;0x70;0x74;0x6f;0x67;0x72;0x61;0x70;0x68;0x69;0x63;0x20;0x46;0x6f;
   0x72;0x75;0x6d;0x20;0x52;0x65;0x73;0x65;0x61;0x72;0x63;0x68;0x20;0x47;0x72;0x6f;
   0x75;0x70].
Definition tag_2_5_2 : list N :=
  [0xa8;0x06;0x1d;0xc1;0x30;0x51;0x36;0xc6;0xc2;0x2b;0x8b;0xaf;0x0c;0x01;0x27;0xa9].

Example rfc8439_2_5_2 : poly1305 key_2_5_2 msg_2_5_2 = tag_2_5_2.
Proof. vm_compute. reflexivity. Qed.
Example rfc8439_2_5_2_spec : poly1305_spec key_2_5_2 msg_2_5_2 = tag_2_5_2.
Proof. vm_compute. reflexivity. Qed.

Example P1305_val : P1305 = 2 ^ 130 - 5. Proof. vm_compute. reflexivity. Qed.
Example M130_val : M130 = 2 ^ 130 - 1. Proof. vm_compute. reflexivity. Qed.
Example M128_val : M128 = 2 ^ 128 - 1. Proof. vm_compute. reflexivity. Qed.
Example CLAMP_val : CLAMP = le_val
  [0xff;0xff;0xff;0x0f;0xfc;0xff;0xff;0x0f;0xfc;0xff;0xff;0x0f;0xfc;0xff;0xff;0x0f].
Proof. vm_compute. reflexivity. Qed.
