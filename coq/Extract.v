(* Extract.v - extraction of the executable model for the correspondence driver.
   ExtrOcamlBasic only: bool, option, unit, list, prod, sumbool, sumor map to the
   native OCaml types; N, positive, nat, Z stay the extracted inductive types. *)
Require Extraction.
Require Import ExtrOcamlBasic.
From Coq Require Import NArith.
From RenetV Require Import Base Tree Driver.
Extraction Language OCaml.
Extraction "model.ml" step world0 N.add N.mul N.div_eucl N.of_nat N.to_nat.
