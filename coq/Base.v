(* Base.v - outcomes (Ok / Err / Panic), checked arithmetic, small list helpers.
   Models contain no proofs; see Proofs/. *)
From Coq Require Export NArith ZArith List Bool Lia.
Export ListNotations.
Open Scope N_scope.

(* Three outcomes: a Rust function returns a value, returns Err(e), or unwinds at
   a numbered panic site.  "No panic" is therefore a statement, not a by-product
   of Gallina's totality. *)
Inductive res (E A : Type) : Type :=
| Ok (a : A)
| Err (e : E)
| Panic (site : N).
Arguments Ok {E A} a.
Arguments Err {E A} e.
Arguments Panic {E A} site.

Definition bind {E A B} (r : res E A) (f : A -> res E B) : res E B :=
  match r with Ok a => f a | Err e => Err e | Panic s => Panic s end.

Notation "'do' x <- r ; k" := (bind r (fun x => k))
  (at level 200, x pattern, r at level 100, k at level 200, right associativity).

Definition is_ok {E A} (r : res E A) : bool := match r with Ok _ => true | _ => false end.
Definition is_panic {E A} (r : res E A) : bool := match r with Panic _ => true | _ => false end.

Definition len {A} (l : list A) : N := N.of_nat (length l).

(* u64 / usize limits *)
Definition U64 : N := 18446744073709551616.  (* 2^64 *)
Definition U64MAX : N := 18446744073709551615.

(* profile: debug builds panic on overflow, release builds wrap *)
Definition sub_chk {E} (site a b : N) : res E N :=
  if b <=? a then Ok (a - b) else Panic site.
Definition add_chk {E} (site a b : N) : res E N :=
  if a + b <? U64 then Ok (a + b) else Panic site.

Fixpoint nth_opt {A} (l : list A) (i : nat) : option A :=
  match l, i with
  | [], _ => None
  | x :: _, O => Some x
  | _ :: t, S j => nth_opt t j
  end.

Fixpoint upd {A} (l : list A) (i : nat) (x : A) : list A :=
  match l, i with
  | [], _ => []
  | _ :: t, O => x :: t
  | y :: t, S j => y :: upd t j x
  end.

Definition idx_chk {E A} (site : N) (l : list A) (i : N) : res E A :=
  match nth_opt l (N.to_nat i) with Some x => Ok x | None => Panic site end.

Fixpoint repeatN {A} (x : A) (n : nat) : list A :=
  match n with O => [] | S k => x :: repeatN x k end.

Definition sum (l : list N) : N := fold_right N.add 0 l.

(* take / drop with N counts *)
Definition takeN {A} (n : N) (l : list A) : list A := firstn (N.to_nat n) l.
Definition dropN {A} (n : N) (l : list A) : list A := skipn (N.to_nat n) l.

Fixpoint list_eqb {A} (eqb : A -> A -> bool) (a b : list A) : bool :=
  match a, b with
  | [], [] => true
  | x :: a', y :: b' => eqb x y && list_eqb eqb a' b'
  | _, _ => false
  end.
Definition bytes_eqb := list_eqb N.eqb.

(* big-endian / little-endian fixed-width integers *)
Fixpoint le_bytes (n : nat) (v : N) : list N :=
  match n with O => [] | S k => (v mod 256) :: le_bytes k (v / 256) end.
Definition be_bytes (n : nat) (v : N) : list N := rev (le_bytes n v).
Definition be_val (l : list N) : N := fold_left (fun acc b => acc * 256 + b) l 0.
Definition le_val (l : list N) : N := fold_right (fun b acc => b + 256 * acc) 0 l.
