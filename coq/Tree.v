(* Tree.v - the generic value exchanged with the correspondence driver.
   Histories and observations are lines of text holding one tree each:
   decimal numbers, byte strings (x<hex>) and parenthesised lists. *)
From RenetV Require Import Base.
Open Scope N_scope.

Inductive tree := TN (n : N) | TB (b : list N) | TL (l : list tree).

Definition tn_list (l : list N) : tree := TL (map TN l).
Definition tbool (b : bool) : tree := TN (if b then 1 else 0).
Definition topt {A} (f : A -> tree) (o : option A) : tree :=
  match o with None => TL [TN 0] | Some a => TL [TN 1; f a] end.

Definition T_PANIC : tree := TL [TN 99].
Definition T_BAD_OP : tree := TL [TN 98].      (* the driver could not decode the operation *)
Definition T_UNRESOLVED : tree := TL [TN 97].  (* operation refers to an endpoint that does not exist *)

Fixpoint get_ns (l : list tree) : option (list N) :=
  match l with
  | [] => Some []
  | TN n :: t => match get_ns t with Some r => Some (n :: r) | None => None end
  | _ => None
  end.
