(* C12 - Disconnection is final and reported exactly once, with the first reason.
   This file only states the property theorems; their proofs live in Proofs/. *)
From RenetV Require Import Base Channels Conn Server ConnSpec.

(* a disconnected connection ignores a further disconnect: the first reason is kept *)
Theorem C12_disconnect_with_keeps_first_reason :
  forall c r1 r2, c_status (disconnect_with (disconnect_with c r1) r2) = c_status (disconnect_with c r1).
Proof.
  intros c r1 r2. unfold disconnect_with at 1.
  destruct (is_disconnected (disconnect_with c r1)) eqn:E; [reflexivity|].
  unfold disconnect_with in E. destruct (is_disconnected c) eqn:E2; [congruence|].
  unfold is_disconnected, set_status in E; cbn in E. discriminate.
Qed.
Print Assumptions C12_disconnect_with_keeps_first_reason.
