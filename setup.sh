#!/bin/sh
# Builds everything the checks need from files on disk only: Consts.v from /repo's sources,
# the Coq development (full .vo build), the extracted OCaml driver, the Rust harness.
cd "$(dirname "$0")" && exec ./check --setup
