(* driver.ml - reads one operation tree per line, runs the extracted model, prints
   one observation tree per line.  Pure syntax: all semantics is in Model (extracted).
   A line "---" resets the world; lines starting with '#' and blank lines are echoed. *)
open Model

(* ---- N <-> decimal strings, arbitrary precision through the extracted N operations ---- *)
let rec pos_of_int (i : int) : positive =
  if i = 1 then XH else if i land 1 = 0 then XO (pos_of_int (i lsr 1)) else XI (pos_of_int (i lsr 1))
let n_of_int (i : int) : n = if i = 0 then N0 else Npos (pos_of_int i)
let rec int_of_pos (p : positive) : int =
  match p with XH -> 1 | XO q -> 2 * int_of_pos q | XI q -> 2 * int_of_pos q + 1
let int_of_n (x : n) : int = match x with N0 -> 0 | Npos p -> int_of_pos p

let n10 = n_of_int 10
let chunk = 1_000_000_000_000_000 (* 10^15 *)
let n_chunk = n_of_int chunk

let n_of_string (s : string) : n =
  let len = String.length s in
  if len <= 18 then n_of_int (int_of_string s)
  else begin
    let acc = ref N0 in
    String.iter (fun c -> acc := N.add (N.mul !acc n10) (n_of_int (Char.code c - 48))) s;
    !acc
  end

let rec pos_bits (p : positive) : int = match p with XH -> 1 | XO q | XI q -> 1 + pos_bits q
let string_of_n (x : n) : string =
  match x with
  | N0 -> "0"
  | Npos p when pos_bits p <= 62 -> string_of_int (int_of_pos p)
  | _ ->
      let rec go x acc =
        match x with
        | N0 -> acc
        | _ ->
            let (q, r) = N.div_eucl x n_chunk in
            (match q with
             | N0 -> string_of_int (int_of_n r) :: acc
             | _ -> go q (Printf.sprintf "%015d" (int_of_n r) :: acc))
      in
      String.concat "" (go x [])

(* ---- byte tables ---- *)
let byte_tab : n array = Array.init 256 n_of_int
let hexval c =
  match c with
  | '0' .. '9' -> Char.code c - 48
  | 'a' .. 'f' -> Char.code c - 87
  | 'A' .. 'F' -> Char.code c - 55
  | _ -> failwith "hex"

(* ---- parser ---- *)
exception Parse of string

let parse_line (s : string) : tree =
  let len = String.length s in
  let pos = ref 0 in
  let skip () = while !pos < len && (s.[!pos] = ' ' || s.[!pos] = '\t' || s.[!pos] = '\r') do incr pos done in
  let rec value () : tree =
    skip ();
    if !pos >= len then raise (Parse "eof");
    match s.[!pos] with
    | '(' ->
        incr pos;
        let items = ref [] in
        let fin = ref false in
        while not !fin do
          skip ();
          if !pos >= len then raise (Parse "unclosed");
          if s.[!pos] = ')' then (incr pos; fin := true) else items := value () :: !items
        done;
        TL (List.rev !items)
    | 'x' ->
        incr pos;
        let start = !pos in
        while !pos < len && (match s.[!pos] with '0' .. '9' | 'a' .. 'f' | 'A' .. 'F' -> true | _ -> false) do incr pos done;
        let n = !pos - start in
        if n land 1 = 1 then raise (Parse "odd hex");
        let rec build i acc = if i < 0 then acc else build (i - 1) (byte_tab.(hexval s.[start + 2 * i] * 16 + hexval s.[start + 2 * i + 1]) :: acc) in
        TB (build (n / 2 - 1) [])
    | '0' .. '9' ->
        let start = !pos in
        while !pos < len && (match s.[!pos] with '0' .. '9' -> true | _ -> false) do incr pos done;
        TN (n_of_string (String.sub s start (!pos - start)))
    | c -> raise (Parse (Printf.sprintf "unexpected %c at %d" c !pos))
  in
  let t = value () in
  skip ();
  if !pos <> len then raise (Parse "trailing");
  t

(* ---- printer ---- *)
let hexdigits = "0123456789abcdef"
let rec print_tree (b : Buffer.t) (t : tree) : unit =
  match t with
  | TN x -> Buffer.add_string b (string_of_n x)
  | TB l ->
      Buffer.add_char b 'x';
      List.iter (fun x -> let v = int_of_n x in
                          if v > 255 then Buffer.add_string b (Printf.sprintf "[%d]" v)
                          else (Buffer.add_char b hexdigits.[v lsr 4]; Buffer.add_char b hexdigits.[v land 15])) l
  | TL l ->
      Buffer.add_char b '(';
      List.iteri (fun i x -> if i > 0 then Buffer.add_char b ' '; print_tree b x) l;
      Buffer.add_char b ')'

let () =
  let ic = if Array.length Sys.argv > 1 then open_in Sys.argv.(1) else stdin in
  let oc = if Array.length Sys.argv > 2 then open_out Sys.argv.(2) else stdout in
  let w = ref world0 in
  let buf = Buffer.create 65536 in
  (try
     while true do
       let line = input_line ic in
       if line = "---" then (w := world0; output_string oc "---\n")
       else if line = "" || line.[0] = '#' then (output_string oc line; output_char oc '\n')
       else begin
         (match (try Some (parse_line line) with Parse _ | Failure _ -> None) with
          | None -> output_string oc "(96)\n"
          | Some op ->
              let (w', o) = step !w op in
              w := w';
              Buffer.clear buf;
              print_tree buf o;
              Buffer.add_char buf '\n';
              Buffer.output_buffer oc buf)
       end
     done
   with End_of_file -> ());
  close_out oc
